// Access-level yield points for objects compiled with
// -fsanitize-coverage=trace-pc-guard,trace-loads,trace-stores (usable together with ASan).
#include "sched.h"
#include <stdint.h>

using simk::access_yield;

extern "C" {
void __sanitizer_cov_trace_pc_guard_init(uint32_t *start, uint32_t *stop)
{
	static uint32_t n;
	for (uint32_t *p = start; p < stop; p++) if (!*p) *p = ++n;
}
void __sanitizer_cov_trace_pc_guard(uint32_t *) {}
#define LS(n) \
	void __sanitizer_cov_load##n(void *a) { access_yield(a, n, 0, -1); } \
	void __sanitizer_cov_store##n(void *a) { access_yield(a, n, 1, -1); }
LS(1) LS(2) LS(4) LS(8) LS(16)
}
