// internal interface between the libc shim and harnesses
#pragma once
#include "sched.h"

namespace simk {

// fault kinds known to the shim (names in shim_fault_names[])
enum ShimFault {
	F_EINTR_WAIT = 0,     // EINTR from an interruptible wait (sem wait, poll, epoll_wait, nanosleep)
	F_SEND_EAGAIN,        // EAGAIN from a non-blocking send
	F_SEND_SHORT,         // short send on a stream socket
	F_RECV_SHORT,         // short recv on a stream socket
	F_RECV_EAGAIN,        // spurious EAGAIN from non-blocking recv (data arrives "later")
	F_READ_SHORT,
	F_WRITE_SHORT,
	F_WRITE_ERR,          // ENOSPC / EIO from write
	F_READ_ERR,
	F_FALLOC_ENOSPC,
	F_UNLINK_EACCES,
	F_EMFILE,
	F_MMAP_ENOMEM,
	F_EPOLL_SHUFFLE,      // epoll_wait returns a shuffled / shortened batch
	F_KILL_BEFORE,        // process dies immediately before this libc call
	F_KILL_AFTER,         // process dies immediately after this libc call
	F_SIGNAL,             // asynchronous signal delivered at this yield point
	F_STALL,              // task descheduled for a stretch
	F_WRITE_LOST,         // write reports success but data is dropped
	F_SMALL_SNDBUF,
	F_ALLOC_ENOMEM,       // malloc / calloc / realloc called by libqb returns NULL
	F_N
};
extern const char *const shim_fault_names[F_N];

// per-run shim reset (clears lock/sem/fd bookkeeping)
void shim_reset();

// simulated processes: identity, credentials, liveness (pids start at SIM_PID_BASE, above any real pid)
#define SIM_PID_BASE 5000000
struct Proc { int spid; unsigned uid, gid; bool alive; bool killable; };
void proc_define(int spid, unsigned uid, unsigned gid);
Proc *proc_get(int spid);
bool proc_alive(int spid);
void proc_die();                                   // the calling task's process dies now (never returns)
int fd_owner(int fd);
int fds_owned_by(int spid, int *out, int max);     // number of descriptors the sim process holds
bool path_owner(const char *path, unsigned *uid, unsigned *gid);   // chown ledger

// tunables set by harnesses per run
struct ShimCfg {
	int64_t clock_res_ns;       // what clock_getres reports
	uint32_t rate_eintr;        // fault rates, x/65536
	uint32_t rate_send_eagain, rate_send_short, rate_recv_short, rate_recv_eagain;
	uint32_t rate_read_short, rate_write_short, rate_write_err, rate_read_err;
	uint32_t rate_falloc, rate_unlink, rate_emfile, rate_mmap, rate_epoll_shuffle;
	int realloc_always_moves;
	int extra_yields;            // a task may also be preempted right after releasing a lock and inside random() (off by default: recorded decisions of older replays keep their meaning)
	uint32_t rate_kill, rate_write_lost;
	int64_t coarse_tick_ns;     // > 0: the *_COARSE clock ids return the time of the last kernel tick (they lag the precise clocks by up to one tick, as on Linux); 0: they are precise
	uint32_t rate_alloc;        // allocation failure (malloc / calloc / realloc made by libqb code)
	int kill_spid;              // sim process that may be killed at any of its libc calls (0: nobody)
	int64_t kill_countdown;     // > 0: that process dies at its n-th libc call from now (armed by a harness at a chosen instant)
	int kill_after_short_send;  // that process dies right after a send that an injected fault cut short (handshake prefixes)
	int sndbuf_bytes;           // SO_SNDBUF forced on accepted / connected stream sockets (0: leave alone)
	int64_t eagain_cost_ns;     // virtual time charged to a caller that got EAGAIN from send/writev
	int64_t shm_quota_bytes;    // posix_fallocate above this fails with ENOSPC (0: no quota)
	int epoll_no_truncate;      // epoll_shuffle fault only reorders the batch, never shortens it
	int memcpy_stride_words;    // simk_memcpy yields once per this many words (0 = every word)
	int64_t epoll_zero_cost_ns; // virtual cost charged per zero-timeout epoll_wait
	int epoll_zero_cost_adaptive; // double that cost every 8 consecutive zero-timeout calls (up to x1024)
	int64_t call_cost_ns;       // virtual cost charged per intercepted call (0 = none)
};
ShimCfg &shim_cfg();

// full-period pseudo random sequence for random() (never repeats within a run)
void shim_random_seed(uint64_t seed);

// hooks harnesses may install (all optional)
struct ShimHooks {
	// called in epoll_wait when nothing is ready and the call would block: the harness may
	// perform external events; returns the virtual time of the next external event or -1
	int64_t (*next_external_event_ns)(void);
	void (*do_external_event)(void);
	// observe every epoll_wait call (timeout as passed by libqb), before it executes
	void (*on_epoll_wait)(int timeout_ms);
	// observe every intercepted call (site id) made by a sim task, before it executes
	void (*on_call)(uint32_t site);
	void (*on_bad_close)(int fd);           // close() of a non-negative number that is not an open descriptor
	// epoll_wait would block for ever (negative timeout, nothing ready, no external event, no other task):
	// return 0 to make the call return 0 events now; if unset the scheduler's deadlock handling applies
	int (*on_blocked_forever)(void);
	// a fault of this kind has just fired
	void (*on_fault)(int kind);
	// a read() by a sim task returned n (>= 0) bytes from descriptor fd
	void (*on_read)(int fd, long n);
	// pipe() called by a sim task succeeded
	void (*on_pipe)(int rfd, int wfd);
	// mmap() by a sim task succeeded
	void (*on_mmap)(void *addr, size_t len, int prot, int flags, int fd);
	// a sim process died (its descriptors are already closed)
	void (*on_proc_death)(int spid);
	// a path was created ('c' file, 'd' directory), chmod'ed ('m') or chown'ed ('o') by a sim task
	void (*on_path)(const char *path, char what);
};
ShimHooks &shim_hooks();

// call-site ids (event log / decisions)
enum Site {
	S_CLOCK = 1, S_SLEEP, S_SEM_POST, S_SEM_WAIT, S_SEM_TRY, S_SEM_TIMED, S_SEM_GET, S_SEM_INIT, S_SEM_DESTROY,
	S_LOCK, S_TRYLOCK, S_UNLOCK, S_RDLOCK, S_WRLOCK, S_THREAD_CREATE, S_THREAD_JOIN,
	S_OPEN, S_CLOSE, S_READ, S_WRITE, S_PIPE, S_FCNTL, S_LSEEK, S_FSTAT, S_FTRUNC, S_FALLOC, S_FSYNC,
	S_SOCKET, S_SOCKETPAIR, S_BIND, S_LISTEN, S_CONNECT, S_ACCEPT, S_SEND, S_RECV, S_RECVMSG, S_WRITEV,
	S_SHUTDOWN, S_GETSOCKOPT, S_SETSOCKOPT, S_GETSOCKNAME, S_POLL, S_EPOLL_CREATE, S_EPOLL_CTL, S_EPOLL_WAIT,
	S_MKDTEMP, S_MKSTEMP, S_UNLINK, S_UNLINKAT, S_TRUNCATE, S_RMDIR, S_CHMOD, S_CHOWN, S_STAT,
	S_MMAP, S_MUNMAP, S_REALLOC, S_GETPID, S_KILL, S_RANDOM, S_SIGACTION, S_N
};

} // namespace simk
