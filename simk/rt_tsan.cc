// Our own "ThreadSanitizer runtime": objects compiled with -fsanitize=thread
// (compile only) call these; every access to a registered shared region is a
// scheduling point, and atomics carry their memory order.
#include "sched.h"
#include <stdint.h>
#include <string.h>

using simk::access_yield;
typedef int morder;

extern "C" {
void __tsan_init() {}
void __tsan_func_entry(void *) {}
void __tsan_func_exit() {}
void __tsan_vptr_update(void **, void *) {}
void __tsan_vptr_read(void **) {}

#define RW(n) \
	void __tsan_read##n(void *a) { access_yield(a, n, 0, -1); } \
	void __tsan_write##n(void *a) { access_yield(a, n, 1, -1); } \
	void __tsan_unaligned_read##n(void *a) { access_yield(a, n, 0, -1); } \
	void __tsan_unaligned_write##n(void *a) { access_yield(a, n, 1, -1); } \
	void __tsan_volatile_read##n(void *a) { access_yield(a, n, 0, -1); } \
	void __tsan_volatile_write##n(void *a) { access_yield(a, n, 1, -1); } \
	void __tsan_read##n##_pc(void *a, void *) { access_yield(a, n, 0, -1); } \
	void __tsan_write##n##_pc(void *a, void *) { access_yield(a, n, 1, -1); }
RW(1) RW(2) RW(4) RW(8) RW(16)

void __tsan_read_range(void *a, unsigned long n) { access_yield(a, (int)n, 0, -1); }
void __tsan_write_range(void *a, unsigned long n) { access_yield(a, (int)n, 1, -1); }

#define ATOMICS(bits, T) \
	T __tsan_atomic##bits##_load(const volatile T *a, morder mo) { access_yield((const void *)a, bits / 8, 0, mo); return __atomic_load_n(a, __ATOMIC_SEQ_CST); } \
	void __tsan_atomic##bits##_store(volatile T *a, T v, morder mo) { simk::g_access_value = (uint64_t)v; access_yield((const void *)a, bits / 8, 1, mo); __atomic_store_n(a, v, __ATOMIC_SEQ_CST); } \
	T __tsan_atomic##bits##_exchange(volatile T *a, T v, morder mo) { simk::g_access_value = (uint64_t)v; access_yield((const void *)a, bits / 8, 3, mo); return __atomic_exchange_n(a, v, __ATOMIC_SEQ_CST); } \
	T __tsan_atomic##bits##_fetch_add(volatile T *a, T v, morder mo) { access_yield((const void *)a, bits / 8, 3, mo); return __atomic_fetch_add(a, v, __ATOMIC_SEQ_CST); } \
	T __tsan_atomic##bits##_fetch_sub(volatile T *a, T v, morder mo) { access_yield((const void *)a, bits / 8, 3, mo); return __atomic_fetch_sub(a, v, __ATOMIC_SEQ_CST); } \
	T __tsan_atomic##bits##_fetch_and(volatile T *a, T v, morder mo) { access_yield((const void *)a, bits / 8, 3, mo); return __atomic_fetch_and(a, v, __ATOMIC_SEQ_CST); } \
	T __tsan_atomic##bits##_fetch_or(volatile T *a, T v, morder mo) { access_yield((const void *)a, bits / 8, 3, mo); return __atomic_fetch_or(a, v, __ATOMIC_SEQ_CST); } \
	T __tsan_atomic##bits##_fetch_xor(volatile T *a, T v, morder mo) { access_yield((const void *)a, bits / 8, 3, mo); return __atomic_fetch_xor(a, v, __ATOMIC_SEQ_CST); } \
	T __tsan_atomic##bits##_fetch_nand(volatile T *a, T v, morder mo) { access_yield((const void *)a, bits / 8, 3, mo); return __atomic_fetch_nand(a, v, __ATOMIC_SEQ_CST); } \
	int __tsan_atomic##bits##_compare_exchange_strong(volatile T *a, T *c, T v, morder mo, morder) { access_yield((const void *)a, bits / 8, 3, mo); return __atomic_compare_exchange_n(a, c, v, 0, __ATOMIC_SEQ_CST, __ATOMIC_SEQ_CST); } \
	int __tsan_atomic##bits##_compare_exchange_weak(volatile T *a, T *c, T v, morder mo, morder) { access_yield((const void *)a, bits / 8, 3, mo); return __atomic_compare_exchange_n(a, c, v, 0, __ATOMIC_SEQ_CST, __ATOMIC_SEQ_CST); } \
	T __tsan_atomic##bits##_compare_exchange_val(volatile T *a, T c, T v, morder mo, morder) { access_yield((const void *)a, bits / 8, 3, mo); __atomic_compare_exchange_n(a, &c, v, 0, __ATOMIC_SEQ_CST, __ATOMIC_SEQ_CST); return c; }
ATOMICS(8, uint8_t) ATOMICS(16, uint16_t) ATOMICS(32, uint32_t) ATOMICS(64, uint64_t)

void __tsan_atomic_thread_fence(morder mo) { access_yield(NULL, 0, 4, mo); __atomic_thread_fence(__ATOMIC_SEQ_CST); }
void __tsan_atomic_signal_fence(morder) {}
}
