// libc seam, part 1: time, semaphores, locks, threads, memory, identity.
// libqb objects are compiled with -include simk_rename.h, so these are the
// functions libqb calls instead of libc.  Callers that are not simulator
// tasks (the harness main thread) get plain pass-through behaviour where that
// makes sense; semaphores and locks always use the simulated representation so
// that state created outside a run is usable inside one.
#define SIMK_NO_RENAME 1
#include "simk_rename.h"
#include "shim.h"
#include <malloc.h>
#include <stdarg.h>

using namespace simk;

namespace simk {

const char *const shim_fault_names[F_N] = {
	"eintr", "send_eagain", "send_short", "recv_short", "recv_eagain", "read_short", "write_short",
	"write_err", "read_err", "falloc_enospc", "unlink_eacces", "emfile", "mmap_enomem", "epoll_shuffle",
	"kill_before", "kill_after", "signal", "stall", "write_lost", "small_sndbuf", "alloc_enomem"
};

static ShimCfg g_cfg;
static ShimHooks g_hooks;
ShimCfg &shim_cfg() { return g_cfg; }
ShimHooks &shim_hooks() { return g_hooks; }

static uint32_t g_rand_ctr, g_rand_key;
void shim_random_seed(uint64_t seed) { g_rand_ctr = 0; g_rand_key = (uint32_t)mix64(seed) & 0x7fffffff; }

void shim_io_reset();

static int g_fault_ctr[F_N];
static void fault_counter(int kind)
{
	if (kind < 0 || kind >= F_N) return;
	if (!g_fault_ctr[kind]) g_fault_ctr[kind] = counter_id("fault", shim_fault_names[kind]) + 1;
	count(g_fault_ctr[kind] - 1);
	if (g_hooks.on_fault) g_hooks.on_fault(kind);
}

void shim_reset()
{
	g_fault_counter = fault_counter;
	memset(&g_cfg, 0, sizeof g_cfg);
	memset(&g_hooks, 0, sizeof g_hooks);
	g_cfg.clock_res_ns = 1;
	shim_random_seed(1);
	shim_io_reset();
}

void shim_call(uint32_t site)
{
	if (!in_task()) return;
	if (g_hooks.on_call) g_hooks.on_call(site);
	if (g_cfg.call_cost_ns) advance_ns(g_cfg.call_cost_ns);
	yield(Y_CALL, site);
}

} // namespace simk

namespace simk { void shim_call(uint32_t site); }

// ------------------------------------------------------------------ time
static void ns_to_ts(int64_t ns, struct timespec *ts)
{
	ts->tv_sec = (time_t)(ns / 1000000000LL);
	ts->tv_nsec = (long)(ns % 1000000000LL);
}
static inline uint64_t u_mono() { return (uint64_t)mono_base() + (uint64_t)now_ns(); }
static inline uint64_t u_real() { return (uint64_t)real_base() + (uint64_t)now_ns(); }

extern "C" int simk_clock_gettime(clockid_t id, struct timespec *ts)
{
	if (!in_task()) return clock_gettime(id, ts);
	shim_call(S_CLOCK);
	uint64_t v = (id == CLOCK_MONOTONIC || id == CLOCK_MONOTONIC_COARSE || id == CLOCK_MONOTONIC_RAW ||
		      id == CLOCK_BOOTTIME) ? u_mono() : u_real();
	if (g_cfg.coarse_tick_ns > 0 && (id == CLOCK_MONOTONIC_COARSE || id == CLOCK_REALTIME_COARSE)) {
		// the coarse clocks are updated once per tick of the simulated kernel (ticks counted from boot = virtual time 0)
		uint64_t since_tick = (uint64_t)now_ns() % (uint64_t)g_cfg.coarse_tick_ns;
		v -= since_tick;
	}
	ts->tv_sec = (time_t)(v / 1000000000ULL);
	ts->tv_nsec = (long)(v % 1000000000ULL);
	return 0;
}
extern "C" int simk_clock_getres(clockid_t id, struct timespec *ts)
{
	if (!in_task()) return clock_getres(id, ts);
	if (ts) ns_to_ts(g_cfg.coarse_tick_ns > 0 && (id == CLOCK_MONOTONIC_COARSE || id == CLOCK_REALTIME_COARSE) ? g_cfg.coarse_tick_ns : g_cfg.clock_res_ns, ts);
	return 0;
}
extern "C" int simk_gettimeofday(struct timeval *tv, void *tz)
{
	if (!in_task()) return gettimeofday(tv, (struct timezone *)tz);
	shim_call(S_CLOCK);
	uint64_t v = u_real();
	tv->tv_sec = (time_t)(v / 1000000000ULL);
	tv->tv_usec = (suseconds_t)((v % 1000000000ULL) / 1000);
	return 0;
}
extern "C" time_t simk_time(time_t *t)
{
	if (!in_task()) return time(t);
	time_t v = (time_t)(u_real() / 1000000000ULL);
	if (t) *t = v;
	return v;
}
static bool never(void *) { return false; }
extern "C" int simk_nanosleep(const struct timespec *req, struct timespec *rem)
{
	if (!in_task()) return nanosleep(req, rem);
	int64_t d = (int64_t)req->tv_sec * 1000000000LL + req->tv_nsec;
	if (fault_here(F_EINTR_WAIT, g_cfg.rate_eintr, NULL, 0)) {
		if (rem) *rem = *req;
		errno = EINTR;
		return -1;
	}
	block_until(never, NULL, now_ns() + d, S_SLEEP);
	if (rem) { rem->tv_sec = 0; rem->tv_nsec = 0; }
	return 0;
}
extern "C" int simk_usleep(useconds_t us)
{
	if (!in_task()) return usleep(us);
	block_until(never, NULL, now_ns() + (int64_t)us * 1000, S_SLEEP);
	return 0;
}

// ------------------------------------------------------------------ semaphores
struct SimSem { uint32_t magic; int32_t value; };
#define SEM_MAGIC 0x53454d31u
static bool sem_avail(void *p) { return ((SimSem *)p)->value > 0; }

extern "C" int simk_sem_init(sem_t *s, int pshared, unsigned v)
{
	(void)pshared;
	shim_call(S_SEM_INIT);
	SimSem *m = (SimSem *)s;
	memset(s, 0, sizeof *s);
	m->magic = SEM_MAGIC; m->value = (int32_t)v;
	return 0;
}
extern "C" int simk_sem_destroy(sem_t *s)
{
	shim_call(S_SEM_DESTROY);
	SimSem *m = (SimSem *)s;
	if (m->magic != SEM_MAGIC) { errno = EINVAL; return -1; }
	m->magic = 0;
	return 0;
}
extern "C" int simk_sem_post(sem_t *s)
{
	shim_call(S_SEM_POST);
	SimSem *m = (SimSem *)s;
	if (m->magic != SEM_MAGIC) { errno = EINVAL; return -1; }
	m->value++;
	return 0;
}
extern "C" int simk_sem_getvalue(sem_t *s, int *v)
{
	shim_call(S_SEM_GET);
	SimSem *m = (SimSem *)s;
	if (m->magic != SEM_MAGIC) { errno = EINVAL; return -1; }
	*v = m->value;
	return 0;
}
extern "C" int simk_sem_trywait(sem_t *s)
{
	shim_call(S_SEM_TRY);
	SimSem *m = (SimSem *)s;
	if (m->magic != SEM_MAGIC) { errno = EINVAL; return -1; }
	if (m->value > 0) { m->value--; return 0; }
	errno = EAGAIN;
	return -1;
}
extern "C" int simk_sem_wait(sem_t *s)
{
	SimSem *m = (SimSem *)s;
	if (m->magic != SEM_MAGIC) { errno = EINVAL; return -1; }
	if (!in_task()) {
		if (m->value > 0) { m->value--; return 0; }
		errno = EDEADLK;      // would block for ever outside a run
		return -1;
	}
	if (fault_here(F_EINTR_WAIT, g_cfg.rate_eintr, NULL, 0)) { yield(Y_CALL, S_SEM_WAIT); errno = EINTR; return -1; }
	block_until(sem_avail, m, -1, S_SEM_WAIT);
	m->value--;
	return 0;
}
extern "C" int simk_sem_timedwait(sem_t *s, const struct timespec *abs)
{
	SimSem *m = (SimSem *)s;
	if (m->magic != SEM_MAGIC) { errno = EINVAL; return -1; }
	if (!in_task()) {
		if (m->value > 0) { m->value--; return 0; }
		errno = ETIMEDOUT;
		return -1;
	}
	if (abs->tv_nsec < 0 || abs->tv_nsec >= 1000000000L) { errno = EINVAL; return -1; }
	int64_t dl = ((int64_t)abs->tv_sec * 1000000000LL + abs->tv_nsec) - real_base();
	if (dl < 0) dl = 0;
	int64_t frac;
	if (fault_here(F_EINTR_WAIT, g_cfg.rate_eintr, &frac, 1001)) {
		// a signal handler ran: at once, or after part of the wait has gone by (the semaphore may be posted meanwhile)
		if (frac > 0 && dl > now_ns()) {
			int64_t part = (dl - now_ns()) / 1000 * (frac > 1000 ? 1000 : frac);
			if (block_until(sem_avail, m, now_ns() + part, S_SEM_TIMED) == 0) { m->value--; return 0; }
		} else yield(Y_CALL, S_SEM_TIMED);
		errno = EINTR; return -1;
	}
	int r = block_until(sem_avail, m, dl, S_SEM_TIMED);
	if (r == 0) { m->value--; return 0; }
	errno = ETIMEDOUT;
	return -1;
}

// ------------------------------------------------------------------ locks
struct SimLock { uint32_t magic; int32_t writer; int32_t readers; };
#define LOCK_MAGIC 0x4c4f434bu
static inline int32_t me() { return in_task() ? cur_task() + 1 : 0x7fff; }
static bool lock_free(void *p) { SimLock *l = (SimLock *)p; return l->writer == 0 && l->readers == 0; }
static bool lock_nowriter(void *p) { return ((SimLock *)p)->writer == 0; }

static int sl_init(SimLock *l) { l->magic = LOCK_MAGIC; l->writer = 0; l->readers = 0; return 0; }
static int sl_lock(SimLock *l, uint32_t site)
{
	if (l->magic != LOCK_MAGIC) sl_init(l);     // statically initialised lock
	if (in_task()) {
		if (l->writer == me()) { return EDEADLK; }
		block_until(lock_free, l, -1, site);
	} else if (!lock_free(l)) return EDEADLK;
	l->writer = me();
	return 0;
}
static int sl_trylock(SimLock *l)
{
	if (l->magic != LOCK_MAGIC) sl_init(l);
	shim_call(S_TRYLOCK);
	if (!lock_free(l)) return EBUSY;
	l->writer = me();
	return 0;
}
static int sl_unlock(SimLock *l)
{
	shim_call(S_UNLOCK);
	if (l->writer) l->writer = 0;
	else if (l->readers > 0) l->readers--;
	if (g_cfg.extra_yields && in_task()) yield(Y_CALL, S_UNLOCK);
	return 0;
}

extern "C" int simk_pthread_mutex_init(pthread_mutex_t *m, const pthread_mutexattr_t *) { memset(m, 0, sizeof *m); return sl_init((SimLock *)m); }
extern "C" int simk_pthread_mutex_lock(pthread_mutex_t *m) { return sl_lock((SimLock *)m, S_LOCK); }
extern "C" int simk_pthread_mutex_trylock(pthread_mutex_t *m) { return sl_trylock((SimLock *)m); }
extern "C" int simk_pthread_mutex_unlock(pthread_mutex_t *m) { return sl_unlock((SimLock *)m); }
extern "C" int simk_pthread_mutex_destroy(pthread_mutex_t *m) { ((SimLock *)m)->magic = 0; return 0; }

// a spinlock is a single int: 0 free, otherwise owner + 1
static bool spin_free(void *p) { return *(volatile int *)p == 0; }
extern "C" int simk_pthread_spin_init(pthread_spinlock_t *s, int) { *s = 0; return 0; }
extern "C" int simk_pthread_spin_lock(pthread_spinlock_t *s)
{
	if (in_task()) {
		if (*s == me()) return EDEADLK;
		block_until(spin_free, (void *)s, -1, S_LOCK);
	} else if (*s != 0) return EDEADLK;
	*s = me();
	return 0;
}
extern "C" int simk_pthread_spin_trylock(pthread_spinlock_t *s)
{
	shim_call(S_TRYLOCK);
	if (*s != 0) return EBUSY;
	*s = me();
	return 0;
}
extern "C" int simk_pthread_spin_unlock(pthread_spinlock_t *s) { shim_call(S_UNLOCK); *s = 0; return 0; }
extern "C" int simk_pthread_spin_destroy(pthread_spinlock_t *s) { *s = 0; return 0; }

extern "C" int simk_pthread_rwlock_init(pthread_rwlock_t *l, const pthread_rwlockattr_t *) { memset(l, 0, sizeof *l); return sl_init((SimLock *)l); }
extern "C" int simk_pthread_rwlock_rdlock(pthread_rwlock_t *p)
{
	SimLock *l = (SimLock *)p;
	if (l->magic != LOCK_MAGIC) sl_init(l);
	if (in_task()) block_until(lock_nowriter, l, -1, S_RDLOCK);
	else if (l->writer) return EDEADLK;
	l->readers++;
	return 0;
}
extern "C" int simk_pthread_rwlock_wrlock(pthread_rwlock_t *p) { return sl_lock((SimLock *)p, S_WRLOCK); }
extern "C" int simk_pthread_rwlock_unlock(pthread_rwlock_t *p) { return sl_unlock((SimLock *)p); }
extern "C" int simk_pthread_rwlock_destroy(pthread_rwlock_t *p) { ((SimLock *)p)->magic = 0; return 0; }

// ------------------------------------------------------------------ threads
struct ThreadStart { void *(*fn)(void *); void *arg; };
static void thread_tramp(void *p)
{
	ThreadStart ts = *(ThreadStart *)p;
	free(p);
	ts.fn(ts.arg);
}
#define TID_BASE 0x51000000UL
extern "C" int simk_pthread_create(pthread_t *th, const pthread_attr_t *at, void *(*fn)(void *), void *arg)
{
	if (!in_task()) return pthread_create(th, at, fn, arg);
	shim_call(S_THREAD_CREATE);
	ThreadStart *ts = (ThreadStart *)malloc(sizeof *ts);
	ts->fn = fn; ts->arg = arg;
	int id = task_create(cur_spid(), thread_tramp, ts, "thread");
	*th = (pthread_t)(TID_BASE + (unsigned long)id);
	return 0;
}
static bool tdone(void *p) { return task_done((int)(long)p); }
extern "C" int simk_pthread_join(pthread_t th, void **ret)
{
	if ((unsigned long)th < TID_BASE || (unsigned long)th >= TID_BASE + 4096 || !in_task()) return pthread_join(th, ret);
	int id = (int)((unsigned long)th - TID_BASE);
	block_until(tdone, (void *)(long)id, -1, S_THREAD_JOIN);
	if (ret) *ret = NULL;
	return 0;
}
extern "C" void simk_pthread_exit(void *v)
{
	if (!in_task()) pthread_exit(v);
	task_exit_now();
}
extern "C" int simk_pthread_setschedparam(pthread_t th, int pol, const struct sched_param *sp)
{
	if ((unsigned long)th >= TID_BASE && (unsigned long)th < TID_BASE + 4096) {
		// what the kernel checks for a real thread
		int lo = sched_get_priority_min(pol), hi = sched_get_priority_max(pol);
		if (lo < 0 || hi < 0 || !sp || sp->sched_priority < lo || sp->sched_priority > hi) return EINVAL;
		return 0;
	}
	return pthread_setschedparam(th, pol, sp);
}

// ------------------------------------------------------------------ memory
static bool alloc_fails()
{
	if (!in_task() || !g_cfg.rate_alloc) return false;
	if (!fault_here(F_ALLOC_ENOMEM, g_cfg.rate_alloc, NULL, 0)) return false;
	errno = ENOMEM;
	return true;
}
// (a request no allocator can meet fails the way glibc's does - NULL and ENOMEM - instead of stopping the sanitizer)
#define SIMK_ALLOC_LIMIT ((size_t)1 << 44)
extern "C" void *simk_malloc(size_t n)
{
	if (n > SIMK_ALLOC_LIMIT) { errno = ENOMEM; return NULL; }
	return alloc_fails() ? NULL : malloc(n);
}
extern "C" void *simk_calloc(size_t a, size_t b)
{
	size_t prod;
	if (__builtin_mul_overflow(a, b, &prod) || prod > SIMK_ALLOC_LIMIT) { errno = ENOMEM; return NULL; }
	return alloc_fails() ? NULL : calloc(a, b);
}

extern "C" void *simk_realloc(void *p, size_t n)
{
	if (n && alloc_fails()) return NULL;      // (the old block stays valid, as with the real thing)
	if (in_task() && g_cfg.realloc_always_moves && p && n) {
		size_t old = malloc_usable_size(p);
		void *q = malloc(n);
		if (!q) return NULL;
		memcpy(q, p, old < n ? old : n);
		free(p);
		return q;
	}
	return realloc(p, n);
}

extern "C" void *simk_memcpy(void *d, const void *s, size_t n)
{
	if (!in_task() || n == 0) return memcpy(d, s, n);
	int rd = access_region_of(d), rs = access_region_of(s);
	if (rd < 0 && rs < 0) return memcpy(d, s, n);
	// copy in words, each access to the shared side being a preemption point
	size_t stride = g_cfg.memcpy_stride_words > 0 ? (size_t)g_cfg.memcpy_stride_words * 4 : 4;
	char *dp = (char *)d; const char *sp = (const char *)s;
	size_t done = 0;
	while (done < n) {
		size_t k = n - done < stride ? n - done : stride;
		if (rs >= 0) access_yield(sp + done, (int)k, 0, -1);
		if (rd >= 0) access_yield(dp + done, (int)k, 1, -1);
		memcpy(dp + done, sp + done, k);
		done += k;
	}
	return d;
}

// ------------------------------------------------------------------ randomness
extern "C" long simk_random(void)
{
	if (!in_task()) return random();
	if (g_cfg.extra_yields) yield(Y_CALL, S_UNLOCK);
	// bijection on 31 bits applied to a counter: never repeats within 2^31 calls
	uint32_t x = (g_rand_ctr++ + g_rand_key) & 0x7fffffff;
	x ^= x >> 15; x = (x * 0x2c1b3c6dU) & 0x7fffffff;
	x ^= x >> 12; x = (x * 0x297a2d39U) & 0x7fffffff;
	x ^= x >> 15;
	return (long)(x & 0x7fffffff);
}
