#include "json.h"
#include <string.h>
#include <stdio.h>

namespace simk {

const JVal *JVal::get(const char *k) const
{
	for (size_t n = 0; n < obj.size(); n++)
		if (obj[n].first == k) return &obj[n].second;
	return NULL;
}
int64_t JVal::num(const char *k, int64_t def) const
{
	const JVal *v = get(k);
	if (!v) return def;
	if (v->t == NUM) return v->i;
	if (v->t == BOOL) return v->b;
	if (v->t == STR) return (int64_t)strtoull(v->s.c_str(), NULL, 0);
	return def;
}
std::string JVal::str(const char *k, const char *def) const
{
	const JVal *v = get(k);
	if (!v || v->t != STR) return def;
	return v->s;
}

struct P {
	const char *p, *e;
	std::string err;
	void ws() { while (p < e && (*p == ' ' || *p == '\n' || *p == '\t' || *p == '\r')) p++; }
	bool fail(const char *m) { if (err.empty()) { char b[96]; snprintf(b, sizeof b, "%s at offset %ld", m, (long)(e - p)); err = b; } return false; }
	bool str(std::string &out) {
		if (p >= e || *p != '"') return fail("expected string");
		p++;
		while (p < e && *p != '"') {
			if (*p == '\\') {
				p++;
				if (p >= e) return fail("bad escape");
				switch (*p) {
				case 'n': out += '\n'; break;
				case 't': out += '\t'; break;
				case 'r': out += '\r'; break;
				case 'b': out += '\b'; break;
				case 'f': out += '\f'; break;
				case 'u': {
					if (e - p < 5) return fail("bad \\u");
					unsigned v = 0;
					for (int k = 1; k <= 4; k++) {
						char c = p[k]; v <<= 4;
						if (c >= '0' && c <= '9') v |= c - '0';
						else if (c >= 'a' && c <= 'f') v |= c - 'a' + 10;
						else if (c >= 'A' && c <= 'F') v |= c - 'A' + 10;
						else return fail("bad \\u");
					}
					p += 4;
					if (v < 0x80) out += (char)v;
					else if (v < 0x800) { out += (char)(0xc0 | (v >> 6)); out += (char)(0x80 | (v & 0x3f)); }
					else { out += (char)(0xe0 | (v >> 12)); out += (char)(0x80 | ((v >> 6) & 0x3f)); out += (char)(0x80 | (v & 0x3f)); }
					break; }
				default: out += *p;
				}
				p++;
			} else out += *p++;
		}
		if (p >= e) return fail("unterminated string");
		p++;
		return true;
	}
	bool val(JVal &v) {
		ws();
		if (p >= e) return fail("eof");
		if (*p == '{') {
			v.t = JVal::OBJ; p++; ws();
			if (p < e && *p == '}') { p++; return true; }
			for (;;) {
				ws();
				std::string k;
				if (!str(k)) return false;
				ws();
				if (p >= e || *p != ':') return fail("expected :");
				p++;
				v.obj.push_back(std::make_pair(k, JVal()));
				if (!val(v.obj.back().second)) return false;
				ws();
				if (p < e && *p == ',') { p++; continue; }
				if (p < e && *p == '}') { p++; return true; }
				return fail("expected , or }");
			}
		}
		if (*p == '[') {
			v.t = JVal::ARR; p++; ws();
			if (p < e && *p == ']') { p++; return true; }
			for (;;) {
				v.arr.push_back(JVal());
				if (!val(v.arr.back())) return false;
				ws();
				if (p < e && *p == ',') { p++; continue; }
				if (p < e && *p == ']') { p++; return true; }
				return fail("expected , or ]");
			}
		}
		if (*p == '"') { v.t = JVal::STR; return str(v.s); }
		if (!strncmp(p, "true", 4) && e - p >= 4) { v.t = JVal::BOOL; v.b = true; p += 4; return true; }
		if (!strncmp(p, "false", 5) && e - p >= 5) { v.t = JVal::BOOL; v.b = false; p += 5; return true; }
		if (!strncmp(p, "null", 4) && e - p >= 4) { v.t = JVal::NUL; p += 4; return true; }
		if (*p == '-' || (*p >= '0' && *p <= '9')) {
			bool neg = false;
			if (*p == '-') { neg = true; p++; }
			uint64_t u = 0; bool any = false;
			while (p < e && *p >= '0' && *p <= '9') { u = u * 10 + (uint64_t)(*p - '0'); p++; any = true; }
			if (!any) return fail("bad number");
			// tolerate (and truncate) a fraction / exponent
			if (p < e && (*p == '.' || *p == 'e' || *p == 'E')) {
				while (p < e && (*p == '.' || *p == 'e' || *p == 'E' || *p == '+' || *p == '-' || (*p >= '0' && *p <= '9'))) p++;
			}
			v.t = JVal::NUM;
			v.i = neg ? -(int64_t)u : (int64_t)u;
			return true;
		}
		return fail("unexpected character");
	}
};

bool json_parse(const std::string &text, JVal &out, std::string &err)
{
	P p; p.p = text.data(); p.e = text.data() + text.size();
	if (!p.val(out)) { err = p.err; return false; }
	return true;
}

std::string json_escape(const std::string &s)
{
	std::string o;
	for (size_t n = 0; n < s.size(); n++) {
		unsigned char c = (unsigned char)s[n];
		if (c == '"') o += "\\\"";
		else if (c == '\\') o += "\\\\";
		else if (c == '\n') o += "\\n";
		else if (c == '\t') o += "\\t";
		else if (c == '\r') o += "\\r";
		else if (c < 0x20 || c >= 0x7f) { char b[8]; snprintf(b, sizeof b, "\\u%04x", c); o += b; }
		else o += (char)c;
	}
	return o;
}

} // namespace simk
