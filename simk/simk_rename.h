/*
 * Forced-include header (-include) for every libqb translation unit built by
 * the harnesses.  It does not touch /repo: it first pulls in the system
 * headers (so their declarations are seen unrenamed and their include guards
 * are set), then redirects the libc calls libqb makes to the simulator's
 * wrappers.  Code outside libqb (harness, C++ runtime, sanitizer runtime) is
 * not affected at all.
 */
#ifndef SIMK_RENAME_H
#define SIMK_RENAME_H

#ifndef _GNU_SOURCE
#define _GNU_SOURCE 1
#endif
#include <sys/types.h>
#include <sys/stat.h>
#include <sys/time.h>
#include <sys/socket.h>
#include <sys/un.h>
#include <sys/uio.h>
#include <sys/mman.h>
#include <sys/epoll.h>
#include <sys/sem.h>
#include <sys/ipc.h>
#include <sys/resource.h>
#include <sys/wait.h>
#include <sys/param.h>
#include <sys/poll.h>
#include <poll.h>
#include <fcntl.h>
#include <unistd.h>
#include <time.h>
#include <signal.h>
#include <setjmp.h>
#include <semaphore.h>
#include <pthread.h>
#include <stdlib.h>
#include <stdio.h>
#include <string.h>
#include <errno.h>
#include <syslog.h>
#include <dirent.h>
#include <sched.h>

#ifdef __cplusplus
extern "C" {
#endif

/* time */
int simk_clock_gettime(clockid_t, struct timespec *);
int simk_clock_getres(clockid_t, struct timespec *);
int simk_gettimeofday(struct timeval *, void *);
time_t simk_time(time_t *);
int simk_nanosleep(const struct timespec *, struct timespec *);
int simk_usleep(useconds_t);
/* semaphores */
int simk_sem_init(sem_t *, int, unsigned);
int simk_sem_post(sem_t *);
int simk_sem_wait(sem_t *);
int simk_sem_trywait(sem_t *);
int simk_sem_timedwait(sem_t *, const struct timespec *);
int simk_sem_getvalue(sem_t *, int *);
int simk_sem_destroy(sem_t *);
/* locks */
int simk_pthread_mutex_init(pthread_mutex_t *, const pthread_mutexattr_t *);
int simk_pthread_mutex_lock(pthread_mutex_t *);
int simk_pthread_mutex_trylock(pthread_mutex_t *);
int simk_pthread_mutex_unlock(pthread_mutex_t *);
int simk_pthread_mutex_destroy(pthread_mutex_t *);
int simk_pthread_spin_init(pthread_spinlock_t *, int);
int simk_pthread_spin_lock(pthread_spinlock_t *);
int simk_pthread_spin_trylock(pthread_spinlock_t *);
int simk_pthread_spin_unlock(pthread_spinlock_t *);
int simk_pthread_spin_destroy(pthread_spinlock_t *);
int simk_pthread_rwlock_init(pthread_rwlock_t *, const pthread_rwlockattr_t *);
int simk_pthread_rwlock_rdlock(pthread_rwlock_t *);
int simk_pthread_rwlock_wrlock(pthread_rwlock_t *);
int simk_pthread_rwlock_unlock(pthread_rwlock_t *);
int simk_pthread_rwlock_destroy(pthread_rwlock_t *);
/* threads */
int simk_pthread_create(pthread_t *, const pthread_attr_t *, void *(*)(void *), void *);
int simk_pthread_join(pthread_t, void **);
void simk_pthread_exit(void *) __attribute__((noreturn));
int simk_pthread_setschedparam(pthread_t, int, const struct sched_param *);
/* descriptors */
int simk_open(const char *, int, ...);
int simk_openat(int, const char *, int, ...);
int simk_close(int);
ssize_t simk_read(int, void *, size_t);
ssize_t simk_write(int, const void *, size_t);
int simk_pipe(int[2]);
int simk_fcntl(int, int, ...);
off_t simk_lseek(int, off_t, int);
int simk_fstat(int, struct stat *);
int simk_ftruncate(int, off_t);
int simk_posix_fallocate(int, off_t, off_t);
int simk_fdatasync(int);
/* sockets */
int simk_socket(int, int, int);
int simk_socketpair(int, int, int, int[2]);
int simk_bind(int, const struct sockaddr *, socklen_t);
int simk_listen(int, int);
int simk_connect(int, const struct sockaddr *, socklen_t);
int simk_accept(int, struct sockaddr *, socklen_t *);
ssize_t simk_send(int, const void *, size_t, int);
ssize_t simk_recv(int, void *, size_t, int);
ssize_t simk_recvmsg(int, struct msghdr *, int);
ssize_t simk_writev(int, const struct iovec *, int);
int simk_shutdown(int, int);
int simk_getsockopt(int, int, int, void *, socklen_t *);
int simk_setsockopt(int, int, int, const void *, socklen_t);
int simk_getsockname(int, struct sockaddr *, socklen_t *);
/* readiness */
int simk_poll(struct pollfd *, nfds_t, int);
int simk_epoll_create1(int);
int simk_epoll_ctl(int, int, int, struct epoll_event *);
int simk_epoll_wait(int, struct epoll_event *, int, int);
/* files */
char *simk_mkdtemp(char *);
int simk_mkstemp(char *);
int simk_unlink(const char *);
int simk_unlinkat(int, const char *, int);
int simk_truncate(const char *, off_t);
int simk_rmdir(const char *);
int simk_chmod(const char *, mode_t);
int simk_chown(const char *, uid_t, gid_t);
int simk_stat(const char *, struct stat *);
/* memory */
void *simk_mmap(void *, size_t, int, int, int, off_t);
int simk_munmap(void *, size_t);
void *simk_realloc(void *, size_t);
void *simk_malloc(size_t);
void *simk_calloc(size_t, size_t);
/* payload copies into / out of shared regions, word by word (only in access-instrumented objects) */
void *simk_memcpy(void *, const void *, size_t);
/* identity, signals, randomness */
pid_t simk_getpid(void);
int simk_kill(pid_t, int);
long simk_random(void);
int simk_sigaction(int, const struct sigaction *, struct sigaction *);
typedef void (*simk_sighandler_t)(int);
simk_sighandler_t simk_signal(int, simk_sighandler_t);

#ifdef __cplusplus
}
#endif

#ifndef SIMK_NO_RENAME

/* object-like: these names are also used by libqb as struct members holding
 * function pointers; renaming every occurrence keeps those consistent */
#define poll simk_poll
#define connect simk_connect
#define send simk_send
#define recv simk_recv
#define close simk_close

/* function-like: only calls are redirected */
#define clock_gettime(...) simk_clock_gettime(__VA_ARGS__)
#define clock_getres(...) simk_clock_getres(__VA_ARGS__)
#define gettimeofday(...) simk_gettimeofday(__VA_ARGS__)
#define time(...) simk_time(__VA_ARGS__)
#define nanosleep(...) simk_nanosleep(__VA_ARGS__)
#define usleep(...) simk_usleep(__VA_ARGS__)
#define sem_init(...) simk_sem_init(__VA_ARGS__)
#define sem_post(...) simk_sem_post(__VA_ARGS__)
#define sem_wait(...) simk_sem_wait(__VA_ARGS__)
#define sem_trywait(...) simk_sem_trywait(__VA_ARGS__)
#define sem_timedwait(...) simk_sem_timedwait(__VA_ARGS__)
#define sem_getvalue(...) simk_sem_getvalue(__VA_ARGS__)
#define sem_destroy(...) simk_sem_destroy(__VA_ARGS__)
#define pthread_mutex_init(...) simk_pthread_mutex_init(__VA_ARGS__)
#define pthread_mutex_lock(...) simk_pthread_mutex_lock(__VA_ARGS__)
#define pthread_mutex_trylock(...) simk_pthread_mutex_trylock(__VA_ARGS__)
#define pthread_mutex_unlock(...) simk_pthread_mutex_unlock(__VA_ARGS__)
#define pthread_mutex_destroy(...) simk_pthread_mutex_destroy(__VA_ARGS__)
#define pthread_spin_init(...) simk_pthread_spin_init(__VA_ARGS__)
#define pthread_spin_lock(...) simk_pthread_spin_lock(__VA_ARGS__)
#define pthread_spin_trylock(...) simk_pthread_spin_trylock(__VA_ARGS__)
#define pthread_spin_unlock(...) simk_pthread_spin_unlock(__VA_ARGS__)
#define pthread_spin_destroy(...) simk_pthread_spin_destroy(__VA_ARGS__)
#define pthread_rwlock_init(...) simk_pthread_rwlock_init(__VA_ARGS__)
#define pthread_rwlock_rdlock(...) simk_pthread_rwlock_rdlock(__VA_ARGS__)
#define pthread_rwlock_wrlock(...) simk_pthread_rwlock_wrlock(__VA_ARGS__)
#define pthread_rwlock_unlock(...) simk_pthread_rwlock_unlock(__VA_ARGS__)
#define pthread_rwlock_destroy(...) simk_pthread_rwlock_destroy(__VA_ARGS__)
#define pthread_create(...) simk_pthread_create(__VA_ARGS__)
#define pthread_join(...) simk_pthread_join(__VA_ARGS__)
#define pthread_exit(...) simk_pthread_exit(__VA_ARGS__)
#define pthread_setschedparam(...) simk_pthread_setschedparam(__VA_ARGS__)
#define open(...) simk_open(__VA_ARGS__)
#define openat(...) simk_openat(__VA_ARGS__)
#define read(...) simk_read(__VA_ARGS__)
#define write(...) simk_write(__VA_ARGS__)
#define pipe(...) simk_pipe(__VA_ARGS__)
#define fcntl(...) simk_fcntl(__VA_ARGS__)
#define lseek(...) simk_lseek(__VA_ARGS__)
#define fstat(...) simk_fstat(__VA_ARGS__)
#define ftruncate(...) simk_ftruncate(__VA_ARGS__)
#define posix_fallocate(...) simk_posix_fallocate(__VA_ARGS__)
#define fdatasync(...) simk_fdatasync(__VA_ARGS__)
#define socket(...) simk_socket(__VA_ARGS__)
#define socketpair(...) simk_socketpair(__VA_ARGS__)
#define bind(...) simk_bind(__VA_ARGS__)
#define listen(...) simk_listen(__VA_ARGS__)
#define accept(...) simk_accept(__VA_ARGS__)
#define recvmsg(...) simk_recvmsg(__VA_ARGS__)
#define writev(...) simk_writev(__VA_ARGS__)
#define shutdown(...) simk_shutdown(__VA_ARGS__)
#define getsockopt(...) simk_getsockopt(__VA_ARGS__)
#define setsockopt(...) simk_setsockopt(__VA_ARGS__)
#define getsockname(...) simk_getsockname(__VA_ARGS__)
#define epoll_create1(...) simk_epoll_create1(__VA_ARGS__)
#define epoll_ctl(...) simk_epoll_ctl(__VA_ARGS__)
#define epoll_wait(...) simk_epoll_wait(__VA_ARGS__)
#define mkdtemp(...) simk_mkdtemp(__VA_ARGS__)
#define mkstemp(...) simk_mkstemp(__VA_ARGS__)
#define unlink(...) simk_unlink(__VA_ARGS__)
#define unlinkat(...) simk_unlinkat(__VA_ARGS__)
#define truncate(...) simk_truncate(__VA_ARGS__)
#define rmdir(...) simk_rmdir(__VA_ARGS__)
#define chmod(...) simk_chmod(__VA_ARGS__)
#define chown(...) simk_chown(__VA_ARGS__)
#define stat(...) simk_stat(__VA_ARGS__)
#define mmap(...) simk_mmap(__VA_ARGS__)
#define munmap(...) simk_munmap(__VA_ARGS__)
#define realloc(...) simk_realloc(__VA_ARGS__)
#define malloc(...) simk_malloc(__VA_ARGS__)
#define calloc(...) simk_calloc(__VA_ARGS__)
#define getpid(...) simk_getpid(__VA_ARGS__)
#define kill(...) simk_kill(__VA_ARGS__)
#define random(...) simk_random(__VA_ARGS__)
#define sigaction(...) simk_sigaction(__VA_ARGS__)
#define signal(...) simk_signal(__VA_ARGS__)

#ifdef SIMK_MEMCPY_YIELD
#define memcpy(...) simk_memcpy(__VA_ARGS__)
#endif

#endif /* SIMK_NO_RENAME */
#endif /* SIMK_RENAME_H */
