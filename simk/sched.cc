// simk scheduler: real pthreads, exactly one holds the baton.
#include "sched.h"
#include <pthread.h>
#include <semaphore.h>
#include <stdio.h>
#include <unistd.h>
#include <stdlib.h>
#include <string.h>
#include <unordered_map>
#include <vector>

namespace simk {

extern void (*g_abort_run_hook)(void);

enum TState { T_NEW, T_RUNNABLE, T_BLOCKED, T_DONE };
#define MAX_FKINDS 48

struct Task {
	int id, spid;
	char name[24];
	pthread_t th;
	sem_t park;
	TState st;
	pred_fn pred; void *parg; int64_t deadline; bool timed_out;
	uint64_t ny;
	uint64_t fcount[MAX_FKINDS];
	int64_t blocked_ns;      // virtual time this task spent waiting in block_until (time it was merely not scheduled is excluded)
	void (*fn)(void *); void *arg;
	jmp_buf jb; bool jb_set;
	bool kill_req, killed;
	int nopreempt;
	int prio;
	bool started;
};

static std::vector<Task *> tasks;
static __thread Task *tl_task;
static sem_t main_sem;
static const RunSpec *g_spec;
static SchedCfg g_cfg;
static Rng r_sched, r_fault;
static uint64_t g_step, g_handoffs;
static int64_t g_now, g_mono0, g_real0;
static bool g_teardown, g_finish, g_active;
static bool g_faults_on;
static uint64_t g_fault_mask;
static std::unordered_map<uint64_t, int> dec_map;
static std::unordered_map<uint64_t, int64_t> flt_map;
static std::vector<uint64_t> pct_points;
static uint64_t rr_left;
static void (*g_deadlock_handler)(void);

struct Region { const char *base; size_t len; };
static std::vector<Region> regions;

static inline uint64_t dkey(int task, uint64_t idx) { return ((uint64_t)task << 48) ^ idx; }
static inline uint64_t fkey(int task, int kind, uint64_t idx) { return ((uint64_t)task << 56) ^ ((uint64_t)kind << 48) ^ idx; }

void sched_cfg_from_seed(uint64_t seed, int ntasks, uint64_t expect_steps, uint64_t step_cap, SchedCfg &c)
{
	Rng r = stream(seed, "schedcfg");
	memset(&c, 0, sizeof c);
	c.step_cap = step_cap;
	c.vtime_cap_ns = -1;
	c.expect_steps = expect_steps ? expect_steps : 1;
	static const int strat[] = { ST_SEQ, ST_RANDOM, ST_RANDOM, ST_RANDOM, ST_PCT, ST_PCT, ST_RR, ST_STALL };
	c.strategy = strat[r.below(sizeof strat / sizeof strat[0])];
	static const uint32_t ps[] = { 131, 655, 1966, 6553, 13107, 19660 };   // 0.002 .. 0.3
	c.p_num = ps[r.below(6)];
	c.quantum = (uint32_t)r.range(1, 40);
	c.pct_d = (int)r.range(1, 3);
	c.stall_task = ntasks > 0 ? (int)r.below((uint64_t)ntasks) : 0;
	c.stall_from = r.below(c.expect_steps);
	c.stall_len = r.range(10, (int64_t)(c.expect_steps / 2 + 20));
}

bool in_task() { return tl_task != NULL; }
int cur_task() { return tl_task ? tl_task->id : -1; }
// While the scheduler evaluates the wake-up condition of a blocked task it does so on that task's behalf: anything the
// condition asks about "the calling process" (descriptor ownership) must be answered for the blocked task, not for whichever
// task happens to be running the scheduler.
static thread_local Task *tl_eval_as;
int cur_spid() { Task *t = tl_eval_as ? tl_eval_as : tl_task; return t ? t->spid : 0; }
int task_spid(int id) { return id >= 0 && id < (int)tasks.size() ? tasks[id]->spid : 0; }
int n_tasks() { return (int)tasks.size(); }
bool task_done(int id) { return tasks[id]->st == T_DONE; }
bool task_killed(int id) { return tasks[id]->killed; }
uint64_t steps() { return g_step; }
int64_t task_blocked_ns() { return tl_task ? tl_task->blocked_ns : 0; }
uint64_t handoffs() { return g_handoffs; }
int64_t now_ns() { return g_now; }
int64_t mono_base() { return g_mono0; }
int64_t real_base() { return g_real0; }
void set_time_base(int64_t m, int64_t r) { g_mono0 = m; g_real0 = r; }
static uint64_t g_step_at_time_advance;      // scheduling step at which the virtual clock last moved
void advance_ns(int64_t d) { if (d > 0) { g_now += d; g_step_at_time_advance = g_step; } }
uint64_t steps_since_time_advance() { return g_step - g_step_at_time_advance; }
void faults_enable(bool on) { g_faults_on = on; }
void set_deadlock_handler(void (*h)(void)) { g_deadlock_handler = h; }

void no_preempt(int delta) { if (tl_task) tl_task->nopreempt += delta; }

static void abort_hook()
{
	g_teardown = true;
	// nothing to unwind once the task body has returned (a deadlock detected while the last runnable task leaves):
	// choose_forced() sees g_teardown and leave() goes on to the unfinished tasks
	if (tl_task && g_active && tl_task->jb_set) task_exit_now();
}

void finish_run()
{
	g_finish = true;
	g_teardown = true;
	if (tl_task && g_active && tl_task->jb_set) task_exit_now();
}

static bool is_runnable(Task *t)
{
	if (t->st == T_RUNNABLE || t->st == T_NEW) return true;
	// no side effects: many candidates are examined, only one is switched to
	if (t->st == T_BLOCKED) {
		if (t->pred) {
			Task *prev = tl_eval_as;
			tl_eval_as = t;
			bool ok = t->pred(t->parg);
			tl_eval_as = prev;
			if (ok) return true;
		}
		if (t->deadline >= 0 && t->deadline <= g_now) return true;
	}
	return false;
}

static void park(Task *t)
{
	while (sem_wait(&t->park) != 0) {}
}

static void switch_to(Task *from, Task *to, uint32_t site)
{
	g_handoffs++;
	fp_mix(((uint64_t)site << 8) ^ (uint64_t)to->id);
	sem_post(&to->park);
	if (from) {
		park(from);
		if (from->kill_req || g_teardown) task_exit_now();
	}
}

// choose who runs when the current task cannot continue (blocked or finished).
// Returns NULL when nobody can run any more.
static Task *choose_forced(Task *self, uint32_t site)
{
	(void)site;
	for (;;) {
		std::vector<Task *> rs;
		for (size_t n = 0; n < tasks.size(); n++)
			if (tasks[n]->st != T_DONE && is_runnable(tasks[n])) rs.push_back(tasks[n]);
		if (!rs.empty()) {
			Task *pick = NULL;
			if (g_spec->replay) {
				{
					std::unordered_map<uint64_t, int>::iterator it = dec_map.find(self ? dkey(self->id, self->ny) : dkey(0xffff, 0));
					if (it != dec_map.end())
						for (size_t n = 0; n < rs.size(); n++) if (rs[n]->id == it->second) pick = rs[n];
				}
				if (!pick) pick = rs[0];
			} else {
				switch (g_cfg.strategy) {
				case ST_PCT: {
					pick = rs[0];
					for (size_t n = 1; n < rs.size(); n++) if (rs[n]->prio > pick->prio) pick = rs[n];
					break; }
				case ST_SEQ:
					pick = rs[0];
					// prefer continuing in id order after self
					if (self) for (size_t n = 0; n < rs.size(); n++) if (rs[n]->id > self->id) { pick = rs[n]; break; }
					break;
				case ST_STALL: {
					std::vector<Task *> ns;
					bool stalling = g_step >= g_cfg.stall_from && g_step < g_cfg.stall_from + g_cfg.stall_len;
					for (size_t n = 0; n < rs.size(); n++)
						if (!(stalling && rs[n]->id == g_cfg.stall_task)) ns.push_back(rs[n]);
					if (ns.empty()) ns = rs;
					pick = ns[r_sched.below(ns.size())];
					break; }
				default:
					pick = rs[r_sched.below(rs.size())];
				}
				if (self) rec_decision(self->id, self->ny, pick->id);
				else rec_decision(0xffff, 0, pick->id);
			}
			return pick;
		}
		// nobody runnable: jump the clock to the earliest deadline
		int64_t dl = -1;
		bool any_alive = false;
		for (size_t n = 0; n < tasks.size(); n++) {
			Task *t = tasks[n];
			if (t->st == T_DONE) continue;
			any_alive = true;
			if (t->st == T_BLOCKED && t->deadline >= 0 && (dl < 0 || t->deadline < dl)) dl = t->deadline;
		}
		if (!any_alive) return NULL;
		if (dl < 0) {
			// everybody blocked for ever
			if (g_deadlock_handler) {
				g_deadlock_handler();
			} else {
				Result &r = result();
				if (r.verdict == V_OK) {
					r.verdict = V_VIOLATION;
					snprintf(r.cls, sizeof r.cls, "deadlock");
					snprintf(r.site, sizeof r.site, "sched");
					snprintf(r.detail, sizeof r.detail, "all live tasks blocked with no deadline at step %llu",
						 (unsigned long long)g_step);
				}
			}
			g_teardown = true;
			return NULL;
		}
		if (dl > g_now) { g_now = dl; g_step_at_time_advance = g_step; }
		if (g_cfg.vtime_cap_ns >= 0 && g_now > g_cfg.vtime_cap_ns) {
			Result &r = result();
			if (r.verdict == V_OK) {
				r.verdict = V_INCONCLUSIVE;
				snprintf(r.cls, sizeof r.cls, "inconclusive");
				snprintf(r.site, sizeof r.site, "vtime-cap");
			}
			g_teardown = true;
			return NULL;
		}
	}
}

// all remaining work when a run is being torn down: wake the next unfinished thread
static Task *next_unfinished()
{
	for (size_t n = 0; n < tasks.size(); n++)
		if (tasks[n]->st != T_DONE && !tasks[n]->killed) return tasks[n];
	return NULL;
}

static void leave(Task *t)
{
	// t has finished (or was unwound); hand the baton on
	t->st = T_DONE;
	t->ny++;           // the exit is a decision point of its own (keys must be unique per task)
	Task *to = NULL;
	if (!g_teardown) to = choose_forced(t, 0);
	if (g_teardown) to = next_unfinished();
	if (to) { g_handoffs++; sem_post(&to->park); }
	else sem_post(&main_sem);
}

static void *trampoline(void *p)
{
	Task *t = (Task *)p;
	tl_task = t;
	park(t);
	if (!t->kill_req && !g_teardown) {
		t->started = true;
		t->st = T_RUNNABLE;
		if (setjmp(t->jb) == 0) {
			t->jb_set = true;
			ev(Y_START, t->id);
			t->fn(t->arg);
		}
		t->jb_set = false;
	}
	if (t->killed) { t->st = T_DONE; tl_task = NULL; return NULL; }   // reaped by sched_end, baton not involved
	if (!g_teardown) ev(Y_EXIT, t->id);
	leave(t);
	tl_task = NULL;
	return NULL;
}

void task_exit_now()
{
	Task *t = tl_task;
	if (t && t->jb_set) longjmp(t->jb, 1);
	// not inside a task body: nothing to unwind
	abort();
}

void sched_begin(const RunSpec &spec, const SchedCfg &cfg)
{
	g_spec = &spec;
	g_cfg = cfg;
	r_sched = stream(spec.seed, "sched");
	r_fault = stream(spec.seed, "fault");
	g_step = g_handoffs = 0;
	g_now = 0; g_step_at_time_advance = 0;
	g_teardown = g_finish = false;
	g_active = false;
	g_faults_on = true;
	g_fault_mask = r_fault.u64() | r_fault.u64();      // each kind enabled with probability 3/4
	g_deadlock_handler = NULL;
	dec_map.clear(); flt_map.clear(); pct_points.clear();
	if (spec.replay || spec.explicit_faults) {
		for (size_t n = 0; n < spec.faults.size(); n++)
			flt_map[fkey(spec.faults[n].task, spec.faults[n].kind, spec.faults[n].idx)] = spec.faults[n].arg;
	}
	if (spec.replay) {
		for (size_t n = 0; n < spec.decisions.size(); n++)
			dec_map[dkey(spec.decisions[n].task, spec.decisions[n].idx)] = spec.decisions[n].to;
	} else if (cfg.strategy == ST_PCT) {
		for (int k = 0; k < cfg.pct_d; k++) pct_points.push_back(r_sched.below(cfg.expect_steps) + 1);
	}
	rr_left = cfg.quantum;
	sem_init(&main_sem, 0, 0);
	g_abort_run_hook = abort_hook;
}

int task_create(int spid, void (*fn)(void *), void *arg, const char *name)
{
	Task *t = new Task();
	memset((void *)t, 0, sizeof *t);
	t->id = (int)tasks.size();
	t->spid = spid;
	snprintf(t->name, sizeof t->name, "%s", name ? name : "task");
	t->fn = fn; t->arg = arg;
	t->st = T_NEW;
	t->deadline = -1;
	t->prio = (int)(r_sched.below(1000)) + 1000;   // PCT initial priorities (harmless otherwise)
	sem_init(&t->park, 0, 0);
	tasks.push_back(t);
	pthread_attr_t at;
	pthread_attr_init(&at);
	pthread_attr_setstacksize(&at, 2 << 20);
	if (pthread_create(&t->th, &at, trampoline, t) != 0) { perror("simk: pthread_create"); _exit(2); }
	pthread_attr_destroy(&at);
	return t->id;
}

void sched_run()
{
	g_active = true;
	Task *first = choose_forced(NULL, 0);
	if (first) {
		sem_post(&first->park);
		while (sem_wait(&main_sem) != 0) {}
	}
	g_active = false;
	Result &r = result();
	r.steps = g_step; r.handoffs = g_handoffs; r.vtime_ns = (uint64_t)g_now;
}

void sched_end()
{
	// unwind killed / never-finished threads one at a time, then join everything
	for (size_t n = 0; n < tasks.size(); n++) {
		Task *t = tasks[n];
		if (t->st != T_DONE || t->killed) {
			t->kill_req = true; t->killed = true;
			sem_post(&t->park);
		}
		pthread_join(t->th, NULL);
		sem_destroy(&t->park);
		delete t;
	}
	tasks.clear();
	sem_destroy(&main_sem);
	g_abort_run_hook = NULL;
	regions.clear();
}

void kill_task(int id)
{
	Task *t = tasks[id];
	if (t->st == T_DONE) return;
	t->kill_req = true;
	t->killed = true;
	if (t == tl_task) {
		// self-kill: hand the baton on, then unwind
		t->st = T_DONE;
		t->ny++;
		ev(Y_EXIT, t->id, 1);
		Task *to = NULL;
		if (!g_teardown) to = choose_forced(t, 0);
		if (g_teardown) to = next_unfinished();
		if (to) { g_handoffs++; sem_post(&to->park); } else sem_post(&main_sem);
		// now park until sched_end reaps us
		park(t);
		task_exit_now();
	}
	t->st = T_DONE;    // never scheduled again; its thread is reaped in sched_end
}

static int g_trace = -1;
static void step_tick(Task *t, int kind, uint32_t site)
{
	if (g_trace < 0) g_trace = getenv("SIMK_TRACE") ? 1 : 0;
	if (g_trace) fprintf(stderr, "T step=%llu t=%lld.%06lld task=%d(%s) kind=%d site=%u\n", (unsigned long long)g_step, (long long)(g_now / 1000000), (long long)(g_now % 1000000), t->id, t->name, kind, site);
	g_step++;
	t->ny++;
	ev((uint32_t)kind, t->id, site);
	if (g_cfg.step_cap && g_step > g_cfg.step_cap) {
		Result &r = result();
		if (r.verdict == V_OK) {
			r.verdict = V_INCONCLUSIVE;
			snprintf(r.cls, sizeof r.cls, "inconclusive");
			// a run that spent its last tens of thousands of steps without the virtual clock moving at all is not merely
			// long: somebody is in a loop that costs no time (harnesses decide what that means for their property)
			snprintf(r.site, sizeof r.site, steps_since_time_advance() > 25000 ? "step-cap-no-time-progress" : "step-cap");
		}
		g_teardown = true;
		task_exit_now();
	}
}

void yield(int kind, uint32_t site)
{
	Task *t = tl_task;
	if (!t || !g_active) return;
	if (g_teardown || t->kill_req) task_exit_now();
	step_tick(t, kind, site);
	if (t->nopreempt) return;
	Task *to = NULL;
	if (g_spec->replay) {
		if (dec_map.empty()) return;
		std::unordered_map<uint64_t, int>::iterator it = dec_map.find(dkey(t->id, t->ny));
		if (it == dec_map.end()) return;
		int id = it->second;
		if (id < 0 || id >= (int)tasks.size() || id == t->id) return;
		if (tasks[id]->st == T_DONE || !is_runnable(tasks[id])) return;
		to = tasks[id];
	} else {
		bool want = false;
		switch (g_cfg.strategy) {
		case ST_SEQ: return;
		case ST_RANDOM: want = r_sched.chance(g_cfg.p_num, 65536); break;
		case ST_STALL: {
			bool stalling = g_step >= g_cfg.stall_from && g_step < g_cfg.stall_from + g_cfg.stall_len;
			if (stalling && t->id == g_cfg.stall_task) want = true;          // get off the CPU
			else want = r_sched.chance(g_cfg.p_num, 65536);
			break; }
		case ST_RR:
			if (rr_left > 0) rr_left--;
			if (rr_left == 0) { want = true; rr_left = g_cfg.quantum; }
			break;
		case ST_PCT:
			for (size_t n = 0; n < pct_points.size(); n++)
				if (pct_points[n] == g_step) { t->prio = (int)(pct_points.size() - n); want = true; }
			if (!want && kind != Y_ACCESS) want = true;   // a call may have unblocked a higher-priority task
			break;
		}
		if (!want) return;
		std::vector<Task *> rs;
		for (size_t n = 0; n < tasks.size(); n++) {
			Task *o = tasks[n];
			if (o == t || o->st == T_DONE) continue;
			if (g_cfg.strategy == ST_PCT && o->prio <= t->prio) continue;
			if (is_runnable(o)) rs.push_back(o);
		}
		if (rs.empty()) return;
		if (g_cfg.strategy == ST_PCT) {
			to = rs[0];
			for (size_t n = 1; n < rs.size(); n++) if (rs[n]->prio > to->prio) to = rs[n];
		} else if (g_cfg.strategy == ST_RR) {
			to = rs[0];
			for (size_t n = 0; n < rs.size(); n++) if (rs[n]->id > t->id) { to = rs[n]; break; }
		} else if (g_cfg.strategy == ST_STALL) {
			bool stalling = g_step >= g_cfg.stall_from && g_step < g_cfg.stall_from + g_cfg.stall_len;
			std::vector<Task *> ns;
			for (size_t n = 0; n < rs.size(); n++) if (!(stalling && rs[n]->id == g_cfg.stall_task)) ns.push_back(rs[n]);
			if (ns.empty()) return;
			to = ns[r_sched.below(ns.size())];
		} else {
			to = rs[r_sched.below(rs.size())];
		}
		rec_decision(t->id, t->ny, to->id);
	}
	t->st = T_RUNNABLE;
	switch_to(t, to, site);
}

int block_until(pred_fn pred, void *arg, int64_t deadline_ns, uint32_t site)
{
	Task *t = tl_task;
	if (!t || !g_active) return pred(arg) ? 0 : 1;
	if (g_teardown || t->kill_req) task_exit_now();
	// the call itself is a preemption point; the condition must hold when the caller resumes, not before
	yield(Y_CALL, site);
	if (pred(arg)) return 0;
	if (deadline_ns >= 0 && deadline_ns <= g_now) return 1;
	step_tick(t, Y_BLOCK, site);
	int64_t t_block = g_now;
	t->st = T_BLOCKED;
	t->pred = pred; t->parg = arg; t->deadline = deadline_ns; t->timed_out = false;
	Task *to = choose_forced(t, site);
	if (!to) {
		// deadlock or cap: tear down
		g_teardown = true;
		t->st = T_RUNNABLE;
		task_exit_now();
	}
	if (to != t) switch_to(t, to, site);
	// a picked task resumes at once (nobody runs between the pick and here), so the reason it was picked still holds
	t->st = T_RUNNABLE;
	bool ok = pred(arg);
	t->pred = NULL;
	t->timed_out = !ok;
	{
		int64_t w = g_now - t_block;
		if (deadline_ns >= 0 && w > deadline_ns - t_block) w = deadline_ns - t_block;   // the rest was scheduling latency
		if (w > 0) t->blocked_ns += w;
	}
	return ok ? 0 : 1;
}

void (*g_fault_counter)(int kind);

bool fault_here(int kind, uint32_t num, int64_t *arg_out, int64_t arg_range)
{
	Task *t = tl_task;
	if (!t || !g_active || kind < 0 || kind >= MAX_FKINDS) return false;
	uint64_t idx = t->fcount[kind]++;
	if (g_spec->replay || g_spec->explicit_faults) {
		if (flt_map.empty()) return false;
		std::unordered_map<uint64_t, int64_t>::iterator it = flt_map.find(fkey(t->id, kind, idx));
		if (it == flt_map.end()) return false;
		if (arg_out) *arg_out = arg_range > 0 ? (int64_t)((uint64_t)it->second % (uint64_t)arg_range) : it->second;
		if (!g_spec->replay) rec_fault(t->id, kind, idx, it->second);     // an enumerated fault: record it so the replay file carries it
		if (g_fault_counter) g_fault_counter(kind);
		return true;
	}
	if (!g_faults_on || num == 0) return false;
	if (!((g_fault_mask >> (kind & 63)) & 1)) return false;
	if (!r_fault.chance(num, 65536)) return false;
	int64_t a = arg_range > 0 ? (int64_t)r_fault.below((uint64_t)arg_range) : 0;
	if (arg_out) *arg_out = a;
	rec_fault(t->id, kind, idx, a);
	if (g_fault_counter) g_fault_counter(kind);
	return true;
}

void access_region_add(const void *base, size_t len)
{
	Region r; r.base = (const char *)base; r.len = len;
	// a new mapping over the range of an older one means the older one is gone (where the kernel places a mapping
	// varies from process to process, so a stale region must never be matched); the index of a region is its
	// position in the order of creation and does not depend on addresses
	for (size_t n = 0; n < regions.size(); n++)
		if (regions[n].len && r.base < regions[n].base + regions[n].len && regions[n].base < r.base + len) regions[n].len = 0;
	regions.push_back(r);
}
void access_region_unmap(const void *base, size_t len)
{
	const char *b = (const char *)base;
	for (size_t n = 0; n < regions.size(); n++)
		if (regions[n].len && b < regions[n].base + regions[n].len && regions[n].base < b + len) regions[n].len = 0;
}
void access_regions_clear() { regions.clear(); }

void (*g_access_hook)(const void *addr, int size, int is_write, int order, int region, size_t off);
uint64_t g_access_value;

int access_region_of(const void *addr)
{
	const char *a = (const char *)addr;
	for (size_t n = 0; n < regions.size(); n++)
		if (a >= regions[n].base && a < regions[n].base + regions[n].len) return (int)n;
	return -1;
}

void access_yield(const void *addr, int size, int is_write, int order)
{
	Task *t = tl_task;
	if (!t || !g_active) return;
	const char *a = (const char *)addr;
	if (!addr) {
		// a fence: not a preemption point, but the observer wants to know
		if (g_access_hook && !regions.empty()) g_access_hook(addr, size, is_write, order, -1, 0);
		return;
	}
	for (size_t n = 0; n < regions.size(); n++) {
		if (a >= regions[n].base && a < regions[n].base + regions[n].len) {
			size_t off = (size_t)(a - regions[n].base);
			// preempt first, observe second: nothing can run between the observer and the access itself
			yield(Y_ACCESS, (uint32_t)((n << 28) ^ (off << 1) ^ (uint32_t)(is_write & 1)));
			if (g_access_hook) g_access_hook(addr, size, is_write, order, (int)n, off);
			return;
		}
	}
}

} // namespace simk
