// simk scheduler: real threads, one baton; virtual clock; decisions; faults
#pragma once
#include "simk.h"
#include <setjmp.h>

namespace simk {

enum Strategy { ST_SEQ = 0, ST_RANDOM = 1, ST_PCT = 2, ST_RR = 3, ST_STALL = 4, ST_N };

struct SchedCfg {
	int strategy;
	uint32_t p_num;        // switch probability p_num / 65536 (ST_RANDOM, ST_STALL background)
	uint32_t quantum;      // ST_RR
	int pct_d;             // ST_PCT number of priority change points
	uint64_t expect_steps; // ST_PCT horizon
	int stall_task;        // ST_STALL
	uint64_t stall_from, stall_len;
	uint64_t step_cap;
	int64_t vtime_cap_ns;
};
// derive a swarm-style scheduling configuration from the run seed
void sched_cfg_from_seed(uint64_t seed, int ntasks, uint64_t expect_steps, uint64_t step_cap, SchedCfg &out);

// yield kinds (event log)
enum { Y_ACCESS = 1, Y_CALL = 2, Y_BLOCK = 3, Y_OP = 4, Y_START = 5, Y_EXIT = 6 };

typedef bool (*pred_fn)(void *);

// --- set-up (harness main thread, outside a run)
void sched_begin(const RunSpec &spec, const SchedCfg &cfg);
int task_create(int spid, void (*fn)(void *), void *arg, const char *name);  // also legal from a running task
void sched_run();              // returns when every task finished or the run was torn down
void sched_end();              // joins threads, frees task table

// --- from tasks
bool in_task();
int cur_task();
int cur_spid();
uint64_t steps_since_time_advance();   // scheduling steps since the virtual clock last moved
int task_spid(int id);
int n_tasks();
void yield(int kind, uint32_t site);                 // possible preemption point
// block until pred holds (evaluated by whoever holds the baton) or virtual deadline; <0: none.
// returns 0: predicate true, 1: deadline passed
int block_until(pred_fn pred, void *arg, int64_t deadline_ns, uint32_t site);
bool task_done(int id);
void task_exit_now() __attribute__((noreturn));      // unwind current task to its trampoline
void kill_task(int id);                              // stop a parked task at its next wake-up (process death)
bool task_killed(int id);
void no_preempt(int delta);                          // nesting counter: suppress voluntary switches

// --- virtual time
int64_t now_ns();
void advance_ns(int64_t d);
void set_time_base(int64_t mono0, int64_t real0);
int64_t mono_base();
int64_t real_base();

// --- faults. A site asks whether fault `kind` fires at this (task, per-kind call index).
// In seed mode the answer comes from the fault stream with probability num/65536 and is
// recorded; in replay mode only listed faults fire. Returns false when not in a task.
bool fault_here(int kind, uint32_t num, int64_t *arg_out, int64_t arg_range);
void faults_enable(bool on);   // the harness switches faults off for the liveness tail

// access-level instrumentation front ends call this
void access_yield(const void *addr, int size, int is_write, int order);
void access_region_add(const void *base, size_t len);
void access_region_unmap(const void *base, size_t len);   // the range is gone: its regions no longer match
void access_regions_clear();
int access_region_of(const void *addr);    // index of the registered region holding addr, or -1
extern uint64_t g_access_value;            // value being stored, set by the atomic front end before access_yield

uint64_t steps();
int64_t task_blocked_ns();   // virtual time the calling task has spent waiting in blocking calls so far
uint64_t handoffs();
extern void (*g_fault_counter)(int kind);   // called whenever a fault fires

// end the run now without a verdict change (expected end reached from inside a task)
void finish_run();
// called when every live task is blocked with no deadline; default: violation "deadlock"
void set_deadlock_handler(void (*h)(void));
// optional observer of every access inside a registered region (before the access happens)
extern void (*g_access_hook)(const void *addr, int size, int is_write, int order, int region, size_t off);

} // namespace simk
