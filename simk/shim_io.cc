// libc seam, part 2: descriptors, sockets, readiness, files, mmap, identity.
#define SIMK_NO_RENAME 1
#include "simk_rename.h"
#include "shim.h"
#include <stdarg.h>
#include <vector>
#include <algorithm>

using namespace simk;
namespace simk { void shim_call(uint32_t site); }

namespace simk {
void shim_io_reset()
{
}
}

static ShimCfg &C() { return shim_cfg(); }

// the one fixed shared-memory name libqb uses is made unique per worker process
static const char *rw_path(const char *p, char *buf, size_t n)
{
	static const char pat[] = "/dev/shm/qb-create_from_file-";
	if (strncmp(p, pat, sizeof pat - 1) == 0) {
		snprintf(buf, n, "/dev/shm/qb-create_from_file%d-%s", (int)getpid(), p + sizeof pat - 1);
		return buf;
	}
	return p;
}

// ------------------------------------------------------------------ descriptors
extern "C" int simk_open(const char *path, int flags, ...)
{
	mode_t mode = 0;
	if (flags & (O_CREAT | O_TMPFILE)) { va_list ap; va_start(ap, flags); mode = (mode_t)va_arg(ap, int); va_end(ap); }
	shim_call(S_OPEN);
	char b[PATH_MAX];
	if (fault_here(F_EMFILE, C().rate_emfile, NULL, 0)) { errno = EMFILE; return -1; }
	return open(rw_path(path, b, sizeof b), flags, mode);
}
extern "C" int simk_openat(int dfd, const char *path, int flags, ...)
{
	mode_t mode = 0;
	if (flags & (O_CREAT | O_TMPFILE)) { va_list ap; va_start(ap, flags); mode = (mode_t)va_arg(ap, int); va_end(ap); }
	shim_call(S_OPEN);
	return openat(dfd, path, flags, mode);
}
extern "C" int simk_close(int fd) { shim_call(S_CLOSE); return close(fd); }
extern "C" ssize_t simk_read(int fd, void *buf, size_t n)
{
	shim_call(S_READ);
	int64_t a;
	if (fault_here(F_READ_ERR, C().rate_read_err, &a, 2)) { errno = a ? EIO : EINTR; return -1; }
	if (n > 1 && fault_here(F_READ_SHORT, C().rate_read_short, &a, (int64_t)n - 1)) n = (size_t)a + 1;
	ssize_t r = read(fd, buf, n);
	if (r >= 0 && in_task() && shim_hooks().on_read) shim_hooks().on_read(fd, (long)r);
	return r;
}
extern "C" ssize_t simk_write(int fd, const void *buf, size_t n)
{
	shim_call(S_WRITE);
	int64_t a;
	if (fault_here(F_WRITE_ERR, C().rate_write_err, &a, 2)) { errno = a ? EIO : ENOSPC; return -1; }
	if (n > 1 && fault_here(F_WRITE_SHORT, C().rate_write_short, &a, (int64_t)n - 1)) n = (size_t)a + 1;
	return write(fd, buf, n);
}
extern "C" int simk_pipe(int fds[2])
{
	shim_call(S_PIPE);
	int r = pipe(fds);
	if (r == 0 && in_task() && shim_hooks().on_pipe) shim_hooks().on_pipe(fds[0], fds[1]);
	return r;
}
extern "C" int simk_fcntl(int fd, int cmd, ...)
{
	va_list ap; va_start(ap, cmd); long arg = va_arg(ap, long); va_end(ap);
	shim_call(S_FCNTL);
	return fcntl(fd, cmd, arg);
}
extern "C" off_t simk_lseek(int fd, off_t o, int w) { shim_call(S_LSEEK); return lseek(fd, o, w); }
extern "C" int simk_fstat(int fd, struct stat *st) { shim_call(S_FSTAT); return fstat(fd, st); }
extern "C" int simk_ftruncate(int fd, off_t n) { shim_call(S_FTRUNC); return ftruncate(fd, n); }
extern "C" int simk_posix_fallocate(int fd, off_t o, off_t n)
{
	shim_call(S_FALLOC);
	if (fault_here(F_FALLOC_ENOSPC, C().rate_falloc, NULL, 0)) return ENOSPC;
	return posix_fallocate(fd, o, n);
}
extern "C" int simk_fdatasync(int fd) { shim_call(S_FSYNC); return fdatasync(fd); }

// ------------------------------------------------------------------ sockets
extern "C" int simk_socket(int d, int t, int p) { shim_call(S_SOCKET); return socket(d, t, p); }
extern "C" int simk_socketpair(int d, int t, int p, int sv[2]) { shim_call(S_SOCKETPAIR); return socketpair(d, t, p, sv); }
extern "C" int simk_bind(int fd, const struct sockaddr *a, socklen_t l) { shim_call(S_BIND); return bind(fd, a, l); }
extern "C" int simk_listen(int fd, int b) { shim_call(S_LISTEN); return listen(fd, b); }
extern "C" int simk_connect(int fd, const struct sockaddr *a, socklen_t l) { shim_call(S_CONNECT); return connect(fd, a, l); }
extern "C" int simk_accept(int fd, struct sockaddr *a, socklen_t *l) { shim_call(S_ACCEPT); return accept(fd, a, l); }
extern "C" ssize_t simk_send(int fd, const void *b, size_t n, int f) { shim_call(S_SEND); return send(fd, b, n, f); }
extern "C" ssize_t simk_recv(int fd, void *b, size_t n, int f) { shim_call(S_RECV); return recv(fd, b, n, f); }
extern "C" ssize_t simk_recvmsg(int fd, struct msghdr *m, int f) { shim_call(S_RECVMSG); return recvmsg(fd, m, f); }
extern "C" ssize_t simk_writev(int fd, const struct iovec *v, int n) { shim_call(S_WRITEV); return writev(fd, v, n); }
extern "C" int simk_shutdown(int fd, int how) { shim_call(S_SHUTDOWN); return shutdown(fd, how); }
extern "C" int simk_getsockopt(int fd, int l, int o, void *v, socklen_t *n) { shim_call(S_GETSOCKOPT); return getsockopt(fd, l, o, v, n); }
extern "C" int simk_setsockopt(int fd, int l, int o, const void *v, socklen_t n) { shim_call(S_SETSOCKOPT); return setsockopt(fd, l, o, v, n); }
extern "C" int simk_getsockname(int fd, struct sockaddr *a, socklen_t *l) { shim_call(S_GETSOCKNAME); return getsockname(fd, a, l); }

// ------------------------------------------------------------------ readiness
extern "C" int simk_poll(struct pollfd *fds, nfds_t n, int timeout)
{
	if (!in_task()) return poll(fds, n, timeout);
	shim_call(S_POLL);
	return poll(fds, n, 0);
}
extern "C" int simk_epoll_create1(int f) { shim_call(S_EPOLL_CREATE); return epoll_create1(f); }
extern "C" int simk_epoll_ctl(int ep, int op, int fd, struct epoll_event *ev) { shim_call(S_EPOLL_CTL); return epoll_ctl(ep, op, fd, ev); }

struct EpWait { int ep; struct epoll_event *evs; int max; int got; };
static bool ep_ready(void *p)
{
	EpWait *w = (EpWait *)p;
	w->got = epoll_wait(w->ep, w->evs, w->max, 0);
	return w->got != 0;
}

static bool never_ready(void *) { return false; }

extern "C" int simk_epoll_wait(int ep, struct epoll_event *evs, int max, int timeout)
{
	if (!in_task()) return epoll_wait(ep, evs, max, timeout);
	ShimHooks &H = shim_hooks();
	if (H.on_epoll_wait) H.on_epoll_wait(timeout);
	shim_call(S_EPOLL_WAIT);
	if (fault_here(F_EINTR_WAIT, C().rate_eintr, NULL, 0)) { errno = EINTR; return -1; }
	int64_t deadline = timeout < 0 ? -1 : now_ns() + (int64_t)timeout * 1000000LL;
	int got;
	for (;;) {
		// the outside world does whatever was scheduled up to now
		int64_t nx;
		while (H.next_external_event_ns && (nx = H.next_external_event_ns()) >= 0 && nx <= now_ns()) H.do_external_event();
		got = epoll_wait(ep, evs, max, 0);
		if (got != 0) break;
		if (timeout == 0) break;
		// nothing ready: jump to the next scripted external event if it comes before the deadline
		nx = H.next_external_event_ns ? H.next_external_event_ns() : -1;
		if (nx >= 0 && (deadline < 0 || nx <= deadline)) {
			if (nx > now_ns()) advance_ns(nx - now_ns());
			continue;
		}
		if (n_tasks() > 1) {
			EpWait w; w.ep = ep; w.evs = evs; w.max = max; w.got = 0;
			int r = block_until(ep_ready, &w, deadline, S_EPOLL_WAIT);
			got = r == 0 ? (w.got > 0 ? w.got : epoll_wait(ep, evs, max, 0)) : 0;
			break;
		}
		if (deadline < 0) {
			// single task and nothing can ever happen
			if (H.on_blocked_forever && H.on_blocked_forever() == 0) { got = 0; break; }
			block_until(never_ready, NULL, -1, S_EPOLL_WAIT);   // reported by the scheduler as a deadlock
			got = 0;
			break;
		}
		advance_ns(deadline - now_ns());
		got = epoll_wait(ep, evs, max, 0);
		break;
	}
	if (timeout == 0 && C().epoll_zero_cost_ns) advance_ns(C().epoll_zero_cost_ns);
	int64_t a;
	if (got > 1 && fault_here(F_EPOLL_SHUFFLE, C().rate_epoll_shuffle, &a, 1 << 30)) {
		Rng r((uint64_t)a);
		for (int i = got - 1; i > 0; i--) std::swap(evs[i], evs[r.below((uint64_t)i + 1)]);
		if (!C().epoll_no_truncate) got = 1 + (int)r.below((uint64_t)got);
	}
	return got;
}

// ------------------------------------------------------------------ files
extern "C" char *simk_mkdtemp(char *t) { shim_call(S_MKDTEMP); return mkdtemp(t); }
extern "C" int simk_mkstemp(char *t) { shim_call(S_MKSTEMP); return mkstemp(t); }
extern "C" int simk_unlink(const char *p)
{
	shim_call(S_UNLINK);
	char b[PATH_MAX];
	if (fault_here(F_UNLINK_EACCES, C().rate_unlink, NULL, 0)) { errno = EACCES; return -1; }
	return unlink(rw_path(p, b, sizeof b));
}
extern "C" int simk_unlinkat(int dfd, const char *p, int fl)
{
	shim_call(S_UNLINKAT);
	if (fault_here(F_UNLINK_EACCES, C().rate_unlink, NULL, 0)) { errno = EACCES; return -1; }
	// the directory descriptor was opened on the real directory; only the leaf needs rewriting
	static const char pat[] = "qb-create_from_file-";
	if (strncmp(p, pat, sizeof pat - 1) == 0) {
		char b[PATH_MAX];
		snprintf(b, sizeof b, "qb-create_from_file%d-%s", (int)getpid(), p + sizeof pat - 1);
		return unlinkat(dfd, b, fl);
	}
	return unlinkat(dfd, p, fl);
}
extern "C" int simk_truncate(const char *p, off_t n) { shim_call(S_TRUNCATE); char b[PATH_MAX]; return truncate(rw_path(p, b, sizeof b), n); }
extern "C" int simk_rmdir(const char *p) { shim_call(S_RMDIR); return rmdir(p); }
extern "C" int simk_chmod(const char *p, mode_t m) { shim_call(S_CHMOD); char b[PATH_MAX]; return chmod(rw_path(p, b, sizeof b), m); }
extern "C" int simk_chown(const char *p, uid_t u, gid_t g) { shim_call(S_CHOWN); char b[PATH_MAX]; return chown(rw_path(p, b, sizeof b), u, g); }
extern "C" int simk_stat(const char *p, struct stat *st) { shim_call(S_STAT); char b[PATH_MAX]; return stat(rw_path(p, b, sizeof b), st); }

// ------------------------------------------------------------------ memory
extern "C" void *simk_mmap(void *a, size_t n, int prot, int fl, int fd, off_t off)
{
	shim_call(S_MMAP);
	if (fault_here(F_MMAP_ENOMEM, C().rate_mmap, NULL, 0)) { errno = ENOMEM; return MAP_FAILED; }
	return mmap(a, n, prot, fl, fd, off);
}
extern "C" int simk_munmap(void *a, size_t n) { shim_call(S_MUNMAP); return munmap(a, n); }

// ------------------------------------------------------------------ identity, signals
extern "C" pid_t simk_getpid(void)
{
	if (in_task() && cur_spid() > 0) return (pid_t)cur_spid();
	return getpid();
}
extern "C" int simk_kill(pid_t p, int sig) { shim_call(S_KILL); return kill(p, sig); }
extern "C" int simk_sigaction(int s, const struct sigaction *a, struct sigaction *o) { shim_call(S_SIGACTION); return sigaction(s, a, o); }
extern "C" simk_sighandler_t simk_signal(int s, simk_sighandler_t h) { shim_call(S_SIGACTION); return signal(s, h); }
