// libc seam, part 2: descriptors, sockets, readiness, files, mmap, identity.
#define SIMK_NO_RENAME 1
#include "simk_rename.h"
#include "shim.h"
#include <stdarg.h>
#include <vector>
#include <algorithm>

#include <map>
#include <deque>
#include <string>
#include <sys/file.h>

using namespace simk;
namespace simk { void shim_call(uint32_t site); }

// ------------------------------------------------------------------ simulated processes and their descriptors
namespace simk {

struct FdInfo {
	int owner;            // sim pid owning the descriptor (0: not tracked)
	int peer;             // stream sockets: sim pid at the other end (0: unknown)
	int kind;             // 0 other, 1 stream socket, 2 listening socket, 3 dgram socket
	std::string name;     // bound abstract / file name
};
static std::vector<FdInfo> fdt;
static std::map<int, Proc> procs;
static std::map<std::string, int> listeners;                       // bound stream name -> owner sim pid
static std::map<std::string, std::deque<int> > pending_connects;   // listener name -> sim pids of connectors, FIFO
struct PathOwner { uid_t uid; gid_t gid; bool set; };
static std::map<std::string, PathOwner> chown_ledger;
static int g_zero_streak;

void shim_io_reset()
{
	fdt.clear();
	procs.clear();
	listeners.clear();
	pending_connects.clear();
	chown_ledger.clear();
	g_zero_streak = 0;
}

void proc_define(int spid, unsigned uid, unsigned gid)
{
	Proc p; p.spid = spid; p.uid = uid; p.gid = gid; p.alive = true; p.killable = false;
	procs[spid] = p;
}
Proc *proc_get(int spid)
{
	std::map<int, Proc>::iterator it = procs.find(spid);
	return it == procs.end() ? NULL : &it->second;
}
bool proc_alive(int spid) { Proc *p = proc_get(spid); return p && p->alive; }

static FdInfo *fdi(int fd)
{
	if (fd < 0 || fd > 65535) return NULL;
	if ((size_t)fd >= fdt.size()) fdt.resize((size_t)fd + 1);
	return &fdt[(size_t)fd];
}
static void fd_track(int fd, int kind)
{
	FdInfo *f = fdi(fd);
	if (!f) return;
	f->owner = in_task() ? cur_spid() : 0;
	f->peer = 0; f->kind = kind; f->name.clear();
}
static void fd_forget(int fd)
{
	FdInfo *f = fdi(fd);
	if (!f) return;
	if (f->kind == 2 && !f->name.empty()) { listeners.erase(f->name); pending_connects.erase(f->name); }
	f->owner = 0; f->peer = 0; f->kind = 0; f->name.clear();
}
// may the calling sim process use this descriptor? (a descriptor number means nothing in somebody else's table)
static bool fd_ok(int fd)
{
	if (!in_task() || fd < 0 || (size_t)fd >= fdt.size()) return true;
	int o = fdt[(size_t)fd].owner;
	return o == 0 || o == cur_spid();
}
int fd_owner(int fd) { return fd >= 0 && (size_t)fd < fdt.size() ? fdt[(size_t)fd].owner : 0; }
int fds_owned_by(int spid, int *out, int max)
{
	int n = 0;
	for (size_t fd = 0; fd < fdt.size(); fd++)
		if (fdt[fd].owner == spid) { if (out && n < max) out[n] = (int)fd; n++; }
	return n;
}
bool path_owner(const char *path, unsigned *uid, unsigned *gid)
{
	std::map<std::string, PathOwner>::iterator it = chown_ledger.find(path);
	if (it == chown_ledger.end()) return false;
	*uid = it->second.uid; *gid = it->second.gid;
	return true;
}

// the process of the calling task dies here and now: the kernel closes its descriptors, nothing else happens
void proc_die()
{
	if (!in_task()) return;
	int spid = cur_spid();
	Proc *p = proc_get(spid);
	if (p) p->alive = false;
	for (size_t fd = 0; fd < fdt.size(); fd++) {
		if (fdt[fd].owner == spid) {
			close((int)fd);
			fd_forget((int)fd);
		}
	}
	if (shim_hooks().on_proc_death) shim_hooks().on_proc_death(spid);
	for (int t = 0; t < n_tasks(); t++)
		if (t != cur_task() && task_spid(t) == spid) kill_task(t);
	kill_task(cur_task());
}

} // namespace simk

#define OWN(fd) do { if (!fd_ok(fd)) { errno = EBADF; return -1; } } while (0)

static ShimCfg &C() { return shim_cfg(); }

// every intercepted call of a killable process is a possible point of death
static inline void call_point(uint32_t site)
{
	shim_call(site);
	if (in_task() && C().kill_spid && cur_spid() == C().kill_spid) {
		bool die = fault_here(F_KILL_BEFORE, C().rate_kill, NULL, 0);
		if (C().kill_countdown > 0 && --C().kill_countdown == 0) die = true;
		if (die) proc_die();
	}
}

static std::string sun_name(const struct sockaddr *a, socklen_t l)
{
	if (!a || a->sa_family != AF_UNIX || l <= sizeof(sa_family_t)) return std::string();
	const struct sockaddr_un *u = (const struct sockaddr_un *)a;
	size_t n = l - sizeof(sa_family_t);
	if (u->sun_path[0] == 0) {
		// abstract: the name is everything after the leading NUL, libqb passes a NUL padded string
		std::string s(u->sun_path + 1, n > 1 ? n - 1 : 0);
		size_t z = s.find('\0');
		if (z != std::string::npos) s.resize(z);
		return "@" + s;
	}
	return std::string(u->sun_path, strnlen(u->sun_path, n));
}

// the one fixed shared-memory name libqb uses is made unique per worker process
static const char *rw_path(const char *p, char *buf, size_t n)
{
	static const char pat[] = "/dev/shm/qb-create_from_file-";
	if (strncmp(p, pat, sizeof pat - 1) == 0) {
		snprintf(buf, n, "/dev/shm/qb-create_from_file%d-%s", (int)getpid(), p + sizeof pat - 1);
		return buf;
	}
	return p;
}

// ------------------------------------------------------------------ descriptors
extern "C" int simk_open(const char *path, int flags, ...)
{
	mode_t mode = 0;
	if (flags & (O_CREAT | O_TMPFILE)) { va_list ap; va_start(ap, flags); mode = (mode_t)va_arg(ap, int); va_end(ap); }
	call_point(S_OPEN);
	char b[PATH_MAX];
	if (fault_here(F_EMFILE, C().rate_emfile, NULL, 0)) { errno = EMFILE; return -1; }
	int fd = open(rw_path(path, b, sizeof b), flags, mode);
	if (fd >= 0) fd_track(fd, 0);
	if (fd >= 0 && (flags & O_CREAT) && in_task() && shim_hooks().on_path) shim_hooks().on_path(path, 'c');
	return fd;
}
extern "C" int simk_openat(int dfd, const char *path, int flags, ...)
{
	mode_t mode = 0;
	if (flags & (O_CREAT | O_TMPFILE)) { va_list ap; va_start(ap, flags); mode = (mode_t)va_arg(ap, int); va_end(ap); }
	call_point(S_OPEN);
	OWN(dfd);
	int fd = openat(dfd, path, flags, mode);
	if (fd >= 0) fd_track(fd, 0);
	return fd;
}
extern "C" int simk_close(int fd)
{
	call_point(S_CLOSE);
	OWN(fd);
	int r = close(fd);
	if (r == 0 || errno != EBADF) fd_forget(fd);
	// closing a number that is not open: harmless this time, but whoever gets that number next loses it to such a close
	else if (fd >= 0 && in_task() && shim_hooks().on_bad_close) { int e = errno; shim_hooks().on_bad_close(fd); errno = e; }
	return r;
}
extern "C" ssize_t simk_read(int fd, void *buf, size_t n)
{
	call_point(S_READ);
	OWN(fd);
	int64_t a;
	if (fault_here(F_READ_ERR, C().rate_read_err, &a, 2)) { errno = a ? EIO : EINTR; return -1; }
	if (n > 1 && fault_here(F_READ_SHORT, C().rate_read_short, &a, (int64_t)n - 1)) n = (size_t)a + 1;
	ssize_t r = read(fd, buf, n);
	if (r >= 0 && in_task() && shim_hooks().on_read) shim_hooks().on_read(fd, (long)r);
	return r;
}
extern "C" ssize_t simk_write(int fd, const void *buf, size_t n)
{
	call_point(S_WRITE);
	OWN(fd);
	int64_t a;
	if (fault_here(F_WRITE_ERR, C().rate_write_err, &a, 2)) { errno = a ? EIO : ENOSPC; return -1; }
	if (fault_here(F_WRITE_LOST, C().rate_write_lost, NULL, 0)) return (ssize_t)n;
	if (n > 1 && fault_here(F_WRITE_SHORT, C().rate_write_short, &a, (int64_t)n - 1)) n = (size_t)a + 1;
	return write(fd, buf, n);
}
extern "C" int simk_pipe(int fds[2])
{
	call_point(S_PIPE);
	int r = pipe(fds);
	if (r == 0) { fd_track(fds[0], 0); fd_track(fds[1], 0); }
	if (r == 0 && in_task() && shim_hooks().on_pipe) shim_hooks().on_pipe(fds[0], fds[1]);
	return r;
}
extern "C" int simk_fcntl(int fd, int cmd, ...)
{
	va_list ap; va_start(ap, cmd); long arg = va_arg(ap, long); va_end(ap);
	call_point(S_FCNTL);
	OWN(fd);
	return fcntl(fd, cmd, arg);
}
extern "C" off_t simk_lseek(int fd, off_t o, int w) { call_point(S_LSEEK); OWN(fd); return lseek(fd, o, w); }
extern "C" int simk_fstat(int fd, struct stat *st) { call_point(S_FSTAT); OWN(fd); return fstat(fd, st); }
extern "C" int simk_ftruncate(int fd, off_t n) { call_point(S_FTRUNC); OWN(fd); return ftruncate(fd, n); }
extern "C" int simk_posix_fallocate(int fd, off_t o, off_t n)
{
	call_point(S_FALLOC);
	if (!fd_ok(fd)) return EBADF;
	if (fault_here(F_FALLOC_ENOSPC, C().rate_falloc, NULL, 0)) return ENOSPC;
	if (C().shm_quota_bytes > 0 && (int64_t)n > C().shm_quota_bytes) return ENOSPC;
	return posix_fallocate(fd, o, n);
}
extern "C" int simk_fdatasync(int fd) { call_point(S_FSYNC); OWN(fd); return fdatasync(fd); }

// ------------------------------------------------------------------ sockets
static void small_sndbuf(int fd)
{
	if (C().sndbuf_bytes > 0) { int v = C().sndbuf_bytes; setsockopt(fd, SOL_SOCKET, SO_SNDBUF, &v, sizeof v); }
}
extern "C" int simk_socket(int d, int t, int p)
{
	call_point(S_SOCKET);
	if (fault_here(F_EMFILE, C().rate_emfile, NULL, 0)) { errno = EMFILE; return -1; }
	int fd = socket(d, t, p);
	if (fd >= 0) fd_track(fd, (t & 0xf) == SOCK_STREAM ? 1 : 3);
	return fd;
}
extern "C" int simk_socketpair(int d, int t, int p, int sv[2])
{
	call_point(S_SOCKETPAIR);
	int r = socketpair(d, t, p, sv);
	if (r == 0) { fd_track(sv[0], 0); fd_track(sv[1], 0); }
	return r;
}
extern "C" int simk_bind(int fd, const struct sockaddr *a, socklen_t l)
{
	call_point(S_BIND);
	OWN(fd);
	int r = bind(fd, a, l);
	if (r == 0) { FdInfo *f = fdi(fd); if (f) f->name = sun_name(a, l); }
	return r;
}
extern "C" int simk_listen(int fd, int b)
{
	call_point(S_LISTEN);
	OWN(fd);
	int r = listen(fd, b);
	if (r == 0) { FdInfo *f = fdi(fd); if (f) { f->kind = 2; if (!f->name.empty()) listeners[f->name] = f->owner; } }
	return r;
}
extern "C" int simk_connect(int fd, const struct sockaddr *a, socklen_t l)
{
	call_point(S_CONNECT);
	OWN(fd);
	int r = connect(fd, a, l);
	FdInfo *f = fdi(fd);
	if (r == 0 && f && f->kind == 1) {
		std::string n = sun_name(a, l);
		std::map<std::string, int>::iterator it = listeners.find(n);
		if (it != listeners.end()) {
			f->peer = it->second;
			pending_connects[n].push_back(in_task() ? cur_spid() : 0);    // the kernel's accept queue is FIFO too
			small_sndbuf(fd);
		}
	}
	return r;
}
extern "C" int simk_accept(int fd, struct sockaddr *a, socklen_t *l)
{
	call_point(S_ACCEPT);
	OWN(fd);
	if (fault_here(F_EMFILE, C().rate_emfile, NULL, 0)) { errno = EMFILE; return -1; }
	int nfd = accept(fd, a, l);
	if (nfd >= 0) {
		fd_track(nfd, 1);
		FdInfo *lf = fdi(fd), *nf = fdi(nfd);
		if (lf && nf && !lf->name.empty()) {
			std::deque<int> &q = pending_connects[lf->name];
			if (!q.empty()) { nf->peer = q.front(); q.pop_front(); }
		}
		small_sndbuf(nfd);
	}
	return nfd;
}
static bool never_io(void *) { return false; }
static void eagain_cost()
{
	// a caller that spins on EAGAIN burns CPU while everybody else keeps running: charge time, let others in
	if (in_task() && C().eagain_cost_ns > 0) block_until(never_io, NULL, now_ns() + C().eagain_cost_ns, S_SEND);
}
extern "C" ssize_t simk_send(int fd, const void *b, size_t n, int fl)
{
	call_point(S_SEND);
	OWN(fd);
	int64_t a;
	FdInfo *f = fdi(fd);
	bool stream = f && f->kind == 1;
	if (fault_here(F_SEND_EAGAIN, C().rate_send_eagain, NULL, 0)) { eagain_cost(); errno = EAGAIN; return -1; }
	bool cut = false;
	if (stream && n > 1 && fault_here(F_SEND_SHORT, C().rate_send_short, &a, (int64_t)n - 1)) { n = (size_t)a + 1; cut = true; }
	ssize_t r = send(fd, b, n, fl);
	if (cut && C().kill_after_short_send && C().kill_spid && cur_spid() == C().kill_spid) proc_die();
	if (r < 0 && (errno == EAGAIN || errno == EWOULDBLOCK)) { int e = errno; eagain_cost(); errno = e; }
	return r;
}
extern "C" ssize_t simk_recv(int fd, void *b, size_t n, int fl)
{
	call_point(S_RECV);
	OWN(fd);
	int64_t a;
	FdInfo *f = fdi(fd);
	bool stream = f && f->kind == 1;
	if (stream && n > 1 && !(fl & MSG_PEEK) && fault_here(F_RECV_SHORT, C().rate_recv_short, &a, (int64_t)n - 1)) n = (size_t)a + 1;
	return recv(fd, b, n, fl);
}
extern "C" ssize_t simk_recvmsg(int fd, struct msghdr *m, int fl)
{
	call_point(S_RECVMSG);
	OWN(fd);
	size_t keep = 0;
	int64_t a;
	if (m && m->msg_iovlen == 1 && m->msg_iov[0].iov_len > 1 &&
	    fault_here(F_RECV_SHORT, C().rate_recv_short, &a, (int64_t)m->msg_iov[0].iov_len - 1)) {
		keep = m->msg_iov[0].iov_len;
		m->msg_iov[0].iov_len = (size_t)a + 1;
	}
	ssize_t r = recvmsg(fd, m, fl);
	if (keep) m->msg_iov[0].iov_len = keep;
	if (r >= 0 && in_task()) {
		// the kernel reports the credentials of the process at the other end; here that is a simulated process
		FdInfo *f = fdi(fd);
		Proc *pp = f && f->peer ? proc_get(f->peer) : NULL;
		if (pp) {
			for (struct cmsghdr *c = CMSG_FIRSTHDR(m); c; c = CMSG_NXTHDR(m, c)) {
				if (c->cmsg_level == SOL_SOCKET && c->cmsg_type == SCM_CREDENTIALS) {
					struct ucred u;
					memcpy(&u, CMSG_DATA(c), sizeof u);
					// only credentials the kernel really attached are translated: data sent while neither end had asked
					// for credentials arrives as pid 0 / overflow ids, and must keep arriving like that
					if (u.pid != getpid()) continue;
					u.pid = pp->spid; u.uid = pp->uid; u.gid = pp->gid;
					memcpy(CMSG_DATA(c), &u, sizeof u);
				}
			}
		}
	}
	return r;
}
extern "C" ssize_t simk_writev(int fd, const struct iovec *v, int n)
{
	call_point(S_WRITEV);
	OWN(fd);
	if (fault_here(F_SEND_EAGAIN, C().rate_send_eagain, NULL, 0)) { eagain_cost(); errno = EAGAIN; return -1; }
	ssize_t r = writev(fd, v, n);
	if (r < 0 && (errno == EAGAIN || errno == EWOULDBLOCK)) { int e = errno; eagain_cost(); errno = e; }
	return r;
}
extern "C" int simk_shutdown(int fd, int how) { call_point(S_SHUTDOWN); OWN(fd); return shutdown(fd, how); }
extern "C" int simk_getsockopt(int fd, int l, int o, void *v, socklen_t *n) { call_point(S_GETSOCKOPT); OWN(fd); return getsockopt(fd, l, o, v, n); }
extern "C" int simk_setsockopt(int fd, int l, int o, const void *v, socklen_t n) { call_point(S_SETSOCKOPT); OWN(fd); return setsockopt(fd, l, o, v, n); }
extern "C" int simk_getsockname(int fd, struct sockaddr *a, socklen_t *l) { call_point(S_GETSOCKNAME); OWN(fd); return getsockname(fd, a, l); }

// ------------------------------------------------------------------ readiness
struct PollWait { struct pollfd *fds; nfds_t n; int got; };
static int poll_now(struct pollfd *fds, nfds_t n)
{
	// descriptors that are not the caller's read as invalid, exactly as a closed number would
	std::vector<struct pollfd> tmp(fds, fds + n);
	for (nfds_t i = 0; i < n; i++) if (!fd_ok(tmp[i].fd)) tmp[i].fd = -1;
	int r = poll(tmp.data(), n, 0);
	int cnt = 0;
	for (nfds_t i = 0; i < n; i++) {
		fds[i].revents = tmp[i].fd == -1 && fds[i].fd >= 0 ? POLLNVAL : tmp[i].revents;
		if (fds[i].revents) cnt++;
	}
	return r < 0 ? r : cnt;
}
static bool poll_ready(void *p)
{
	PollWait *w = (PollWait *)p;
	w->got = poll_now(w->fds, w->n);
	return w->got != 0;
}
extern "C" int simk_poll(struct pollfd *fds, nfds_t n, int timeout)
{
	if (!in_task()) return poll(fds, n, timeout);
	call_point(S_POLL);
	int64_t frac;
	if (timeout != 0 && fault_here(F_EINTR_WAIT, C().rate_eintr, &frac, 1001)) {
		// a signal handler ran: at once, or - nothing being ready - after part of the wait has gone by
		if (timeout > 0 && frac > 0) {
			int g0 = poll_now(fds, n);
			if (g0 != 0) return g0;
			PollWait w0; w0.fds = fds; w0.n = n; w0.got = 0;
			int64_t part = (int64_t)timeout * 1000000LL / 1000 * (frac > 1000 ? 1000 : frac);
			if (block_until(poll_ready, &w0, now_ns() + part, S_POLL) == 0) return w0.got > 0 ? w0.got : poll_now(fds, n);
		}
		errno = EINTR; return -1;
	}
	int got = poll_now(fds, n);
	if (got != 0 || timeout == 0) return got;
	PollWait w; w.fds = fds; w.n = n; w.got = 0;
	int64_t deadline = timeout < 0 ? -1 : now_ns() + (int64_t)timeout * 1000000LL;
	int r = block_until(poll_ready, &w, deadline, S_POLL);
	if (r == 0) return w.got > 0 ? w.got : poll_now(fds, n);
	return 0;
}
extern "C" int simk_epoll_create1(int f)
{
	call_point(S_EPOLL_CREATE);
	int fd = epoll_create1(f);
	if (fd >= 0) fd_track(fd, 0);
	return fd;
}
extern "C" int simk_epoll_ctl(int ep, int op, int fd, struct epoll_event *ev) { call_point(S_EPOLL_CTL); OWN(ep); OWN(fd); return epoll_ctl(ep, op, fd, ev); }

struct EpWait { int ep; struct epoll_event *evs; int max; int got; };
static bool ep_ready(void *p)
{
	EpWait *w = (EpWait *)p;
	w->got = epoll_wait(w->ep, w->evs, w->max, 0);
	return w->got != 0;
}

static bool never_ready(void *) { return false; }

extern "C" int simk_epoll_wait(int ep, struct epoll_event *evs, int max, int timeout)
{
	if (!in_task()) return epoll_wait(ep, evs, max, timeout);
	ShimHooks &H = shim_hooks();
	if (H.on_epoll_wait) H.on_epoll_wait(timeout);
	call_point(S_EPOLL_WAIT);
	OWN(ep);
	int64_t frac;
	if (fault_here(F_EINTR_WAIT, C().rate_eintr, &frac, 1001)) {
		// a signal handler ran: at once, or - if nothing was ready - after part of the wait has gone by
		if (timeout > 0 && frac > 0 && epoll_wait(ep, evs, 0 + 1, 0) == 0) {
			int64_t part = (int64_t)timeout * 1000000LL / 1000 * (frac > 1000 ? 1000 : frac);
			if (n_tasks() > 1) {
				EpWait w; w.ep = ep; w.evs = evs; w.max = max; w.got = 0;
				if (block_until(ep_ready, &w, now_ns() + part, S_EPOLL_WAIT) == 0 && w.got > 0) return w.got;
			} else {
				int64_t nx = H.next_external_event_ns ? H.next_external_event_ns() : -1;
				if (nx >= 0 && nx <= now_ns() + part) part = nx > now_ns() ? nx - now_ns() : 0;
				advance_ns(part);
			}
		}
		errno = EINTR; return -1;
	}
	int64_t deadline = timeout < 0 ? -1 : now_ns() + (int64_t)timeout * 1000000LL;
	int64_t t_enter = now_ns();
	int got;
	for (;;) {
		// the outside world does whatever was scheduled up to now
		int64_t nx;
		while (H.next_external_event_ns && (nx = H.next_external_event_ns()) >= 0 && nx <= now_ns()) H.do_external_event();
		got = epoll_wait(ep, evs, max, 0);
		if (got != 0) break;
		if (timeout == 0) break;
		// nothing ready: jump to the next scripted external event if it comes before the deadline
		nx = H.next_external_event_ns ? H.next_external_event_ns() : -1;
		if (nx >= 0 && (deadline < 0 || nx <= deadline)) {
			if (nx > now_ns()) advance_ns(nx - now_ns());
			continue;
		}
		if (n_tasks() > 1) {
			EpWait w; w.ep = ep; w.evs = evs; w.max = max; w.got = 0;
			int r = block_until(ep_ready, &w, deadline, S_EPOLL_WAIT);
			got = r == 0 ? (w.got > 0 ? w.got : epoll_wait(ep, evs, max, 0)) : 0;
			break;
		}
		if (deadline < 0) {
			// single task and nothing can ever happen
			if (H.on_blocked_forever && H.on_blocked_forever() == 0) { got = 0; break; }
			block_until(never_ready, NULL, -1, S_EPOLL_WAIT);   // reported by the scheduler as a deadlock
			got = 0;
			break;
		}
		advance_ns(deadline - now_ns());
		got = epoll_wait(ep, evs, max, 0);
		break;
	}
	if (C().epoll_zero_cost_ns && (timeout == 0 || (C().epoll_zero_cost_adaptive && now_ns() == t_enter))) {
		// a call that returns without having waited still costs CPU time; a loop that keeps doing that (zero timeouts,
		// or a descriptor that stays ready and is never drained) is accounted for ever more coarsely
		if (g_zero_streak < 1000) g_zero_streak++;
		int sh = C().epoll_zero_cost_adaptive ? g_zero_streak / 8 : 0;
		advance_ns(C().epoll_zero_cost_ns << (sh < 12 ? sh : 12));
	} else {
		g_zero_streak = 0;
	}
	int64_t a;
	if (got > 1 && fault_here(F_EPOLL_SHUFFLE, C().rate_epoll_shuffle, &a, 1 << 30)) {
		Rng r((uint64_t)a);
		for (int i = got - 1; i > 0; i--) std::swap(evs[i], evs[r.below((uint64_t)i + 1)]);
		if (!C().epoll_no_truncate) got = 1 + (int)r.below((uint64_t)got);
	}
	return got;
}

// ------------------------------------------------------------------ files
extern "C" char *simk_mkdtemp(char *t)
{
	call_point(S_MKDTEMP);
	char *r = mkdtemp(t);
	if (r && in_task() && shim_hooks().on_path) shim_hooks().on_path(r, 'd');
	return r;
}
extern "C" int simk_mkstemp(char *t)
{
	call_point(S_MKSTEMP);
	int fd = mkstemp(t);
	if (fd >= 0) fd_track(fd, 0);
	if (fd >= 0 && in_task() && shim_hooks().on_path) shim_hooks().on_path(t, 'c');
	return fd;
}
extern "C" int simk_unlink(const char *p)
{
	call_point(S_UNLINK);
	char b[PATH_MAX];
	if (fault_here(F_UNLINK_EACCES, C().rate_unlink, NULL, 0)) { errno = EACCES; return -1; }
	return unlink(rw_path(p, b, sizeof b));
}
extern "C" int simk_unlinkat(int dfd, const char *p, int fl)
{
	call_point(S_UNLINKAT);
	OWN(dfd);
	if (fault_here(F_UNLINK_EACCES, C().rate_unlink, NULL, 0)) { errno = EACCES; return -1; }
	// the directory descriptor was opened on the real directory; only the leaf needs rewriting
	static const char pat[] = "qb-create_from_file-";
	if (strncmp(p, pat, sizeof pat - 1) == 0) {
		char b[PATH_MAX];
		snprintf(b, sizeof b, "qb-create_from_file%d-%s", (int)getpid(), p + sizeof pat - 1);
		return unlinkat(dfd, b, fl);
	}
	return unlinkat(dfd, p, fl);
}
extern "C" int simk_truncate(const char *p, off_t n) { call_point(S_TRUNCATE); char b[PATH_MAX]; return truncate(rw_path(p, b, sizeof b), n); }
extern "C" int simk_rmdir(const char *p) { call_point(S_RMDIR); return rmdir(p); }
extern "C" int simk_chmod(const char *p, mode_t m)
{
	call_point(S_CHMOD);
	char b[PATH_MAX];
	int r = chmod(rw_path(p, b, sizeof b), m);
	if (r == 0 && in_task() && shim_hooks().on_path) shim_hooks().on_path(p, 'm');
	return r;
}
extern "C" int simk_chown(const char *p, uid_t u, gid_t g)
{
	call_point(S_CHOWN);
	char b[PATH_MAX];
	if (in_task()) {
		// ownership is a ledger: the simulated credentials need not exist on this machine (and we may not be root)
		struct stat st;
		if (stat(rw_path(p, b, sizeof b), &st) != 0) return -1;
		PathOwner &o = chown_ledger[p];
		if (u != (uid_t)-1) o.uid = u;
		if (g != (gid_t)-1) o.gid = g;
		o.set = true;
		if (shim_hooks().on_path) shim_hooks().on_path(p, 'o');
		return 0;
	}
	return chown(rw_path(p, b, sizeof b), u, g);
}
extern "C" int simk_stat(const char *p, struct stat *st) { call_point(S_STAT); char b[PATH_MAX]; return stat(rw_path(p, b, sizeof b), st); }

// ------------------------------------------------------------------ memory
extern "C" void *simk_mmap(void *a, size_t n, int prot, int fl, int fd, off_t off)
{
	call_point(S_MMAP);
	if (fd >= 0 && !fd_ok(fd)) { errno = EBADF; return MAP_FAILED; }
	if (fault_here(F_MMAP_ENOMEM, C().rate_mmap, NULL, 0)) { errno = ENOMEM; return MAP_FAILED; }
	void *r = mmap(a, n, prot, fl, fd, off);
	if (r != MAP_FAILED && in_task() && shim_hooks().on_mmap) shim_hooks().on_mmap(r, n, prot, fl, fd);
	return r;
}
extern "C" int simk_munmap(void *a, size_t n) { call_point(S_MUNMAP); access_region_unmap(a, n); return munmap(a, n); }

// ------------------------------------------------------------------ identity, signals
extern "C" pid_t simk_getpid(void)
{
	if (in_task() && cur_spid() > 0) return (pid_t)cur_spid();
	return getpid();
}
extern "C" int simk_kill(pid_t p, int sig)
{
	call_point(S_KILL);
	if (in_task()) {
		Proc *pp = proc_get((int)p);
		if (pp || p >= SIM_PID_BASE) {
			if (!pp || !pp->alive) { errno = ESRCH; return -1; }
			if (sig == 0) return 0;
			errno = EPERM;
			return -1;
		}
	}
	return kill(p, sig);
}
extern "C" int simk_sigaction(int s, const struct sigaction *a, struct sigaction *o) { shim_call(S_SIGACTION); return sigaction(s, a, o); }
extern "C" simk_sighandler_t simk_signal(int s, simk_sighandler_t h) { shim_call(S_SIGACTION); return signal(s, h); }
