// simk core: randomness, plans, results, recorder, worker / one-shot / replay modes
#include "simk.h"
#include "json.h"
#include <stdio.h>
#include <stdlib.h>
#include <string.h>
#include <stdarg.h>
#include <unistd.h>
#include <errno.h>
#include <signal.h>
#include <fcntl.h>
#include <sys/mman.h>
#include <sys/wait.h>
#include <sys/stat.h>
#include <sys/mount.h>
#include <sched.h>
#include <time.h>
#include <dirent.h>
#include <unordered_set>
#include <algorithm>

namespace simk {

uint64_t hash_str(const char *s)
{
	uint64_t h = 0xcbf29ce484222325ULL;
	while (*s) { h ^= (unsigned char)*s++; h *= 0x100000001b3ULL; }
	return mix64(h);
}
Rng stream(uint64_t seed, const char *name)
{
	return Rng(mix64(seed ^ hash_str(name)));
}

// ------------------------------------------------------------------ plan
int64_t Plan::get(const char *k, int64_t def) const
{
	for (size_t n = 0; n < cfg.size(); n++)
		if (cfg[n].first == k) return cfg[n].second;
	return def;
}
void Plan::set(const char *k, int64_t v)
{
	for (size_t n = 0; n < cfg.size(); n++)
		if (cfg[n].first == k) { cfg[n].second = v; return; }
	cfg.push_back(std::make_pair(std::string(k), v));
}
void Plan::add(int task, int kind, int64_t a0, int64_t a1, int64_t a2, int64_t a3, int64_t a4, int64_t a5)
{
	Op o; o.task = task; o.kind = kind;
	o.a[0] = a0; o.a[1] = a1; o.a[2] = a2; o.a[3] = a3; o.a[4] = a4; o.a[5] = a5;
	ops.push_back(o);
}

// ------------------------------------------------------------------ shared state
#define MAX_DEC (1 << 17)
#define MAX_FAULT (1 << 18)
#define MAX_COUNTERS 192
#define EV_RING 128

struct EvRec { uint64_t step; uint32_t kind; int64_t a, b, c; };

struct Shared {
	Result res;
	uint64_t n_dec, n_fault;
	uint32_t dec_overflow, fault_overflow;
	uint64_t counters[MAX_COUNTERS];
	uint64_t ev_n;
	EvRec evr[EV_RING];
	Decision dec[MAX_DEC];
	Fault flt[MAX_FAULT];
};
static Shared *sh;

struct CounterName { std::string group, name; };
static std::vector<CounterName> g_counters;

static int g_worker_id = 0;
static char g_scratch[256];
static const Harness *g_h;
static std::string g_prop;

int worker_id() { return g_worker_id; }
const char *scratch_dir() { return g_scratch; }

static void shared_alloc()
{
	if (sh) return;
	void *p = mmap(NULL, sizeof(Shared), PROT_READ | PROT_WRITE, MAP_SHARED | MAP_ANONYMOUS, -1, 0);
	if (p == MAP_FAILED) { perror("simk: mmap shared"); _exit(2); }
	sh = (Shared *)p;
}
static void shared_reset()
{
	memset(&sh->res, 0, sizeof sh->res);
	sh->n_dec = sh->n_fault = 0;
	sh->dec_overflow = sh->fault_overflow = 0;
	memset(sh->counters, 0, sizeof sh->counters);
	sh->ev_n = 0;
	sh->res.ev_hash = 0x12345;
	sh->res.fingerprint = 0x6789;
}

Result &result() { return sh->res; }
bool failed() { return sh->res.verdict != V_OK; }

// hook the scheduler installs so a failing task can tear the run down
void (*g_abort_run_hook)(void) = NULL;

void fail(const char *cls, const char *site, const char *fmt, ...)
{
	if (sh->res.verdict != V_VIOLATION) {
		// a violation overrides an earlier "inconclusive"
		sh->res.verdict = V_VIOLATION;
		snprintf(sh->res.cls, sizeof sh->res.cls, "%s", cls);
		snprintf(sh->res.site, sizeof sh->res.site, "%s", site);
		va_list ap; va_start(ap, fmt);
		vsnprintf(sh->res.detail, sizeof sh->res.detail, fmt, ap);
		va_end(ap);
	}
	if (g_abort_run_hook) g_abort_run_hook();
}
void inconclusive(const char *why)
{
	if (sh->res.verdict == V_OK) {
		sh->res.verdict = V_INCONCLUSIVE;
		snprintf(sh->res.cls, sizeof sh->res.cls, "inconclusive");
		snprintf(sh->res.site, sizeof sh->res.site, "%s", why);
	}
	if (g_abort_run_hook) g_abort_run_hook();
}

static int g_evtrace = -1;
void ev(uint32_t kind, int64_t a, int64_t b, int64_t c)
{
	if (g_evtrace < 0) g_evtrace = getenv("SIMK_TRACE") ? 1 : 0;
	if (g_evtrace && kind >= 100) fprintf(stderr, "E kind=%u a=%lld b=%lld c=%lld\n", kind, (long long)a, (long long)b, (long long)c);
	uint64_t h = sh->res.ev_hash;
	h = mix64(h ^ kind);
	h = mix64(h ^ (uint64_t)a);
	h = mix64(h ^ (uint64_t)b);
	h = mix64(h ^ (uint64_t)c);
	sh->res.ev_hash = h;
	EvRec &r = sh->evr[sh->ev_n % EV_RING];
	r.step = sh->ev_n; r.kind = kind; r.a = a; r.b = b; r.c = c;
	sh->ev_n++;
}
void fp_mix(uint64_t v) { sh->res.fingerprint = mix64(sh->res.fingerprint ^ v); }
void set_nontrivial(int v) { sh->res.nontrivial = v; }
void request_recycle() { sh->res.recycle = 1; }

int counter_id(const char *group, const char *name)
{
	for (size_t n = 0; n < g_counters.size(); n++)
		if (g_counters[n].group == group && g_counters[n].name == name) return (int)n;
	if (g_counters.size() >= MAX_COUNTERS) { fprintf(stderr, "simk: too many counters\n"); _exit(2); }
	CounterName c; c.group = group; c.name = name;
	g_counters.push_back(c);
	return (int)g_counters.size() - 1;
}
void count(int id, uint64_t n) { sh->counters[id] += n; }

void rec_decision(int task, uint64_t idx, int to)
{
	if (sh->n_dec >= MAX_DEC) { sh->dec_overflow = 1; return; }
	Decision &d = sh->dec[sh->n_dec++];
	d.task = task; d.idx = idx; d.to = to;
}
void rec_fault(int task, int kind, uint64_t idx, int64_t arg)
{
	if (sh->n_fault >= MAX_FAULT) { sh->fault_overflow = 1; return; }
	Fault &f = sh->flt[sh->n_fault++];
	f.task = task; f.kind = kind; f.idx = idx; f.arg = arg;
}

// ------------------------------------------------------------------ replay file I/O
static const char *op_name(int k)
{
	static char buf[24];
	if (g_h && k >= 0 && k < g_h->n_op_names) return g_h->op_names[k];
	snprintf(buf, sizeof buf, "op%d", k);
	return buf;
}
static int op_kind(const std::string &s)
{
	for (int k = 0; g_h && k < g_h->n_op_names; k++)
		if (s == g_h->op_names[k]) return k;
	if (s.compare(0, 2, "op") == 0) return atoi(s.c_str() + 2);
	return -1;
}
static const char *fault_name(int k)
{
	static char buf[24];
	if (g_h && g_h->fault_names && k >= 0 && k < g_h->n_fault_names) return g_h->fault_names[k];
	snprintf(buf, sizeof buf, "fault%d", k);
	return buf;
}
static int fault_kind(const std::string &s)
{
	for (int k = 0; g_h && g_h->fault_names && k < g_h->n_fault_names; k++)
		if (s == g_h->fault_names[k]) return k;
	if (s.compare(0, 5, "fault") == 0) return atoi(s.c_str() + 5);
	return -1;
}

static const char *verdict_name(int v)
{
	return v == V_OK ? "ok" : v == V_VIOLATION ? "violation" : "inconclusive";
}

static std::string spec_json(const RunSpec &spec, const std::vector<Decision> &dec,
			     const std::vector<Fault> &flt, const Result *res, bool pretty)
{
	std::string o;
	char b[256];
	const char *nl = pretty ? "\n" : "";
	o += "{"; o += nl;
	o += "\"property\":\"" + json_escape(g_prop) + "\","; o += nl;
	o += "\"harness\":\"" + json_escape(g_h->name) + "\","; o += nl;
	snprintf(b, sizeof b, "\"seed\":%llu,", (unsigned long long)spec.seed); o += b; o += nl;
	o += "\"cfg\":{";
	for (size_t n = 0; n < spec.plan.cfg.size(); n++) {
		snprintf(b, sizeof b, "%s\"%s\":%lld", n ? "," : "", json_escape(spec.plan.cfg[n].first).c_str(),
			 (long long)spec.plan.cfg[n].second);
		o += b;
	}
	o += "},"; o += nl;
	o += "\"ops\":[";
	for (size_t n = 0; n < spec.plan.ops.size(); n++) {
		const Op &op = spec.plan.ops[n];
		int last = SIMK_OP_ARGS - 1;
		while (last >= 0 && op.a[last] == 0) last--;
		if (n) o += ",";
		if (pretty) o += "\n ";
		snprintf(b, sizeof b, "[%d,\"%s\"", op.task, op_name(op.kind)); o += b;
		for (int k = 0; k <= last; k++) { snprintf(b, sizeof b, ",%lld", (long long)op.a[k]); o += b; }
		o += "]";
	}
	o += "],"; o += nl;
	o += "\"decisions\":[";
	for (size_t n = 0; n < dec.size(); n++) {
		snprintf(b, sizeof b, "%s[%d,%llu,%d]", n ? "," : "", dec[n].task, (unsigned long long)dec[n].idx, dec[n].to);
		o += b;
	}
	o += "],"; o += nl;
	o += "\"faults\":[";
	for (size_t n = 0; n < flt.size(); n++) {
		snprintf(b, sizeof b, "%s[%d,\"%s\",%llu,%lld]", n ? "," : "", flt[n].task, fault_name(flt[n].kind),
			 (unsigned long long)flt[n].idx, (long long)flt[n].arg);
		o += b;
	}
	o += "]";
	if (res) {
		o += ","; o += nl;
		o += "\"expect\":{\"verdict\":\""; o += verdict_name(res->verdict); o += "\"";
		o += ",\"class\":\"" + json_escape(res->cls) + "\"";
		o += ",\"site\":\"" + json_escape(res->site) + "\"";
		snprintf(b, sizeof b, ",\"hash\":\"%016llx\"", (unsigned long long)res->ev_hash); o += b;
		o += ",\"detail\":\"" + json_escape(res->detail) + "\"}";
	}
	o += nl; o += "}"; o += nl;
	return o;
}

static bool read_file(const char *path, std::string &out)
{
	FILE *f = fopen(path, "rb");
	if (!f) return false;
	char buf[65536]; size_t n;
	while ((n = fread(buf, 1, sizeof buf, f)) > 0) out.append(buf, n);
	fclose(f);
	return true;
}
static bool write_file(const char *path, const std::string &s)
{
	FILE *f = fopen(path, "wb");
	if (!f) return false;
	fwrite(s.data(), 1, s.size(), f);
	fclose(f);
	return true;
}

static bool spec_from_json(const std::string &text, RunSpec &spec, std::string &err)
{
	JVal j;
	if (!json_parse(text, j, err)) return false;
	spec.seed = (uint64_t)j.num("seed");
	spec.replay = true;
	const JVal *cfg = j.get("cfg");
	if (cfg) for (size_t n = 0; n < cfg->obj.size(); n++)
		spec.plan.cfg.push_back(std::make_pair(cfg->obj[n].first, cfg->obj[n].second.i));
	const JVal *ops = j.get("ops");
	if (ops) for (size_t n = 0; n < ops->arr.size(); n++) {
		const JVal &a = ops->arr[n];
		if (a.arr.size() < 2) { err = "bad op"; return false; }
		Op op; memset(&op, 0, sizeof op);
		op.task = (int)a.arr[0].i;
		op.kind = a.arr[1].t == JVal::STR ? op_kind(a.arr[1].s) : (int)a.arr[1].i;
		if (op.kind < 0) { err = "unknown op " + a.arr[1].s; return false; }
		for (size_t k = 2; k < a.arr.size() && k < 2 + SIMK_OP_ARGS; k++) op.a[k - 2] = a.arr[k].i;
		spec.plan.ops.push_back(op);
	}
	const JVal *dec = j.get("decisions");
	if (dec) for (size_t n = 0; n < dec->arr.size(); n++) {
		const JVal &a = dec->arr[n];
		if (a.arr.size() < 3) { err = "bad decision"; return false; }
		Decision d; d.task = (int)a.arr[0].i; d.idx = (uint64_t)a.arr[1].i; d.to = (int)a.arr[2].i;
		spec.decisions.push_back(d);
	}
	const JVal *flt = j.get("faults");
	if (flt) for (size_t n = 0; n < flt->arr.size(); n++) {
		const JVal &a = flt->arr[n];
		if (a.arr.size() < 4) { err = "bad fault"; return false; }
		Fault f; f.task = (int)a.arr[0].i;
		f.kind = a.arr[1].t == JVal::STR ? fault_kind(a.arr[1].s) : (int)a.arr[1].i;
		if (f.kind < 0) { err = "unknown fault " + a.arr[1].s; return false; }
		f.idx = (uint64_t)a.arr[2].i; f.arg = a.arr[3].i;
		spec.faults.push_back(f);
	}
	return true;
}

// ------------------------------------------------------------------ crash classification
static void first_frame(const std::string &err, size_t from, std::string &func, bool repo_only)
{
	size_t p = from;
	while ((p = err.find("\n    #", p)) != std::string::npos) {
		size_t eol = err.find('\n', p + 1);
		std::string line = err.substr(p + 1, eol == std::string::npos ? std::string::npos : eol - p - 1);
		p = p + 1;
		size_t in = line.find(" in ");
		if (in == std::string::npos) continue;
		size_t fs = in + 4;
		size_t fe = line.find(' ', fs);
		std::string f = line.substr(fs, fe == std::string::npos ? std::string::npos : fe - fs);
		bool in_repo = line.find("/repo/lib/") != std::string::npos ||
			       line.find("/repo/include/") != std::string::npos ||
			       line.find("/lib/") != std::string::npos;
		if (f.compare(0, 2, "__") == 0) continue;          // sanitizer / libc internals
		if (repo_only && !in_repo) continue;
		if (line.find("/simk/") != std::string::npos) continue;
		func = f;
		return;
	}
}

static void classify_crash(int status, const std::string &err, Result &r)
{
	r.verdict = V_VIOLATION;
	r.cls[0] = r.site[0] = 0;
	std::string func;
	size_t as = err.find("Assertion `");
	size_t an = err.find("ERROR: AddressSanitizer: ");
	if (as != std::string::npos && (an == std::string::npos || err.find("ABRT", an) != std::string::npos || an > as)) {
		// prog: file:line: func: Assertion `x' failed.
		snprintf(r.cls, sizeof r.cls, "abort:assert");
		size_t ls = err.rfind('\n', as);
		ls = ls == std::string::npos ? 0 : ls + 1;
		std::string line = err.substr(ls, err.find('\n', as) - ls);
		// split on ": "
		std::vector<std::string> parts;
		size_t q = 0, c;
		while ((c = line.find(": ", q)) != std::string::npos) { parts.push_back(line.substr(q, c - q)); q = c + 2; }
		if (parts.size() >= 3) func = parts[parts.size() - 1];
		// glibc prints __PRETTY_FUNCTION__ ("type *name(args)"): keep the bare function name, as for sanitizer reports
		size_t par = func.find('(');
		if (par != std::string::npos) func.resize(par);
		size_t cut = func.find_last_of(" *&");
		if (cut != std::string::npos) func = func.substr(cut + 1);
		size_t a2 = line.find("Assertion `");
		snprintf(r.detail, sizeof r.detail, "%s", a2 != std::string::npos ? line.c_str() + a2 : line.c_str());
	} else if (an != std::string::npos) {
		size_t s = an + strlen("ERROR: AddressSanitizer: ");
		size_t e = err.find_first_of(" \n", s);
		std::string kind = err.substr(s, e - s);
		snprintf(r.cls, sizeof r.cls, "asan:%s", kind.c_str());
		first_frame(err, an, func, true);
		if (func.empty()) first_frame(err, an, func, false);
		size_t eol = err.find('\n', an);
		snprintf(r.detail, sizeof r.detail, "%s", err.substr(an, eol - an).c_str());
	} else if (WIFSIGNALED(status)) {
		snprintf(r.cls, sizeof r.cls, "signal:%d", WTERMSIG(status));
	} else {
		snprintf(r.cls, sizeof r.cls, "exit:%d", WIFEXITED(status) ? WEXITSTATUS(status) : -1);
	}
	if (func.empty()) func = "unknown";
	snprintf(r.site, sizeof r.site, "%s", func.c_str());
}

// ------------------------------------------------------------------ running
static uint64_t run_seed(uint64_t base, const char *prop, uint64_t index)
{
	return mix64(mix64(base ^ hash_str(prop)) + index * 0x9e3779b97f4a7c15ULL);
}

static void result_line(const char *tag, uint64_t index, const RunSpec &spec, const Result &r)
{
	printf("%s {\"index\":%llu,\"seed\":%llu,\"verdict\":\"%s\",\"class\":\"%s\",\"site\":\"%s\",\"detail\":\"%s\","
	       "\"hash\":\"%016llx\",\"fp\":\"%016llx\",\"nontrivial\":%d,\"steps\":%llu,\"handoffs\":%llu,\"vtime_ns\":%llu}\n",
	       tag, (unsigned long long)index, (unsigned long long)spec.seed, verdict_name(r.verdict),
	       json_escape(r.cls).c_str(), json_escape(r.site).c_str(), json_escape(r.detail).c_str(),
	       (unsigned long long)r.ev_hash, (unsigned long long)r.fingerprint, r.nontrivial,
	       (unsigned long long)r.steps, (unsigned long long)r.handoffs, (unsigned long long)r.vtime_ns);
	fflush(stdout);
}

// run spec in a forked child; classify; returns result (and recorded trace in sh)
static void run_forked(const RunSpec &spec, Result &out, std::string &errtext, int timeout_s)
{
	shared_reset();
	int pfd[2];
	if (pipe(pfd)) { perror("pipe"); _exit(2); }
	fflush(stdout); fflush(stderr);
	pid_t pid = fork();
	if (pid < 0) { perror("fork"); _exit(2); }
	if (pid == 0) {
		close(pfd[0]);
		dup2(pfd[1], 2);
		close(pfd[1]);
		alarm(timeout_s);
		g_h->run(g_prop.c_str(), spec);
		fflush(stdout);
		_exit(0);
	}
	close(pfd[1]);
	char buf[8192]; ssize_t n;
	while ((n = read(pfd[0], buf, sizeof buf)) > 0) {
		if (errtext.size() < (1 << 20)) errtext.append(buf, (size_t)n);
	}
	close(pfd[0]);
	int status = 0;
	waitpid(pid, &status, 0);
	out = sh->res;
	if (!(WIFEXITED(status) && WEXITSTATUS(status) == 0)) {
		if (WIFSIGNALED(status) && WTERMSIG(status) == SIGALRM) {
			out.verdict = V_VIOLATION;
			snprintf(out.cls, sizeof out.cls, "hang:wallclock");
			snprintf(out.site, sizeof out.site, "watchdog");
			snprintf(out.detail, sizeof out.detail, "run exceeded %d s of real time", timeout_s);
		} else if (sh->res.verdict == V_VIOLATION) {
			// an oracle failure was recorded before the process went down; keep it
		} else {
			uint64_t h = out.ev_hash, fp = out.fingerprint, st = out.steps, ho = out.handoffs, vt = out.vtime_ns;
			classify_crash(status, errtext, out);
			out.ev_hash = h; out.fingerprint = fp; out.steps = st; out.handoffs = ho; out.vtime_ns = vt;
		}
	}
}

static void make_scratch()
{
	snprintf(g_scratch, sizeof g_scratch, "/dev/shm/verif-scratch-%d", (int)getpid());
	mkdir(g_scratch, 0700);
}
static void rm_rf(const char *path)
{
	DIR *d = opendir(path);
	if (d) {
		struct dirent *de;
		while ((de = readdir(d))) {
			if (!strcmp(de->d_name, ".") || !strcmp(de->d_name, "..")) continue;
			char p[512]; snprintf(p, sizeof p, "%s/%s", path, de->d_name);
			struct stat st;
			if (lstat(p, &st) == 0 && S_ISDIR(st.st_mode)) rm_rf(p); else unlink(p);
		}
		closedir(d);
	}
	rmdir(path);
}

static void write_counters(std::string &o)
{
	char b[160];
	o += "\"counters\":{";
	bool first = true;
	for (size_t n = 0; n < g_counters.size(); n++) {
		snprintf(b, sizeof b, "%s\"%s.%s\":%llu", first ? "" : ",", g_counters[n].group.c_str(),
			 g_counters[n].name.c_str(), (unsigned long long)sh->counters[n]);
		o += b; first = false;
	}
	o += "}";
}

static volatile uint64_t *g_status;   // mmap'd status word: index being executed

static void crash_note(int sig)
{
	// best effort: tell the driver which index was running
	char b[96];
	int n = snprintf(b, sizeof b, "\nCRASH {\"signal\":%d,\"index\":%llu}\n", sig,
			 (unsigned long long)(g_status ? *g_status : 0));
	if (write(1, b, (size_t)n)) {}
	signal(sig, SIG_DFL);
	raise(sig);
}

extern "C" void __sanitizer_set_death_callback(void (*cb)(void)) __attribute__((weak));
static void asan_death(void)
{
	char b[96];
	int n = snprintf(b, sizeof b, "\nCRASH {\"signal\":0,\"index\":%llu}\n",
			 (unsigned long long)(g_status ? *g_status : 0));
	if (write(1, b, (size_t)n)) {}
}

// resident set above 1.5 GiB (checked between chunks; never in the middle of one, so chunk hashes stay comparable)
static bool rss_too_large()
{
	FILE *f = fopen("/proc/self/statm", "r");
	if (!f) return false;
	unsigned long size = 0, rss = 0;
	int n = fscanf(f, "%lu %lu", &size, &rss);
	fclose(f);
	return n == 2 && rss > (1536UL << 20) / (unsigned long)sysconf(_SC_PAGESIZE);
}

static int worker_loop(uint64_t base, const char *fpfile, int nsamples)
{
	std::unordered_set<uint64_t> fps;
	FILE *fpf = fpfile ? fopen(fpfile, "ab") : NULL;
	uint64_t slot = 0;
	g_status = &slot;
	if (&__sanitizer_set_death_callback) __sanitizer_set_death_callback(asan_death);
	char line[256];
	int samples_left = nsamples;
	while (fgets(line, sizeof line, stdin)) {
		unsigned long long first, cnt; double budget_s = 0;
		if (line[0] == 'Q') break;
		if (sscanf(line, "R %llu %llu %lf", &first, &cnt, &budget_s) < 2) continue;
		uint64_t agg[MAX_COUNTERS]; memset(agg, 0, sizeof agg);
		uint64_t runs = 0, ok = 0, inconc = 0, viol = 0, nontriv = 0, steps = 0, handoffs = 0, vt = 0, newfp = 0, chash = 0;
		bool recycle = false;
		struct timespec t0; clock_gettime(CLOCK_MONOTONIC, &t0);
		for (uint64_t i = first; i < first + cnt; i++) {
			RunSpec spec;
			spec.seed = run_seed(base, g_prop.c_str(), i);
			spec.index = i;
			g_h->gen(g_prop.c_str(), spec);
			shared_reset();
			slot = i;
			g_h->run(g_prop.c_str(), spec);
			const Result &r = sh->res;
			runs++;
			chash = mix64(mix64(chash ^ i) ^ r.ev_hash ^ (uint64_t)r.verdict);
			steps += r.steps; handoffs += r.handoffs; vt += r.vtime_ns;
			for (size_t c = 0; c < g_counters.size(); c++) agg[c] += sh->counters[c];
			if (r.recycle) recycle = true;
			if (r.verdict == V_OK) ok++;
			else if (r.verdict == V_INCONCLUSIVE) { inconc++; recycle = true; }
			else { viol++; recycle = true; result_line("VIOL", i, spec, r); }
			if (r.nontrivial && r.verdict != V_VIOLATION) {
				nontriv++;
				if (fps.insert(r.fingerprint).second) {
					newfp++;
					if (fpf) fwrite(&r.fingerprint, 8, 1, fpf);
				}
			}
			if (samples_left > 0 && r.verdict == V_OK && r.nontrivial) {
				std::vector<Decision> dec(sh->dec, sh->dec + std::min<uint64_t>(sh->n_dec, 400));
				std::vector<Fault> flt(sh->flt, sh->flt + std::min<uint64_t>(sh->n_fault, 200));
				std::string s = spec_json(spec, dec, flt, &r, false);
				printf("SAMPLE %s\n", s.c_str());
				samples_left--;
			}
			if (recycle) { cnt = i - first + 1; break; }
			if (budget_s > 0 && (runs & 15) == 0) {
				struct timespec t1; clock_gettime(CLOCK_MONOTONIC, &t1);
				double el = (double)(t1.tv_sec - t0.tv_sec) + (double)(t1.tv_nsec - t0.tv_nsec) * 1e-9;
				if (el > budget_s) { cnt = i - first + 1; break; }
			}
		}
		if (fpf) fflush(fpf);
		if (!recycle && rss_too_large()) recycle = true;      // a worker that has grown fat (leaks in the code under test, sanitizer quarantine) is replaced between chunks
		std::string o;
		char b[400];
		snprintf(b, sizeof b, "AGG {\"first\":%llu,\"done\":%llu,\"runs\":%llu,\"ok\":%llu,\"inconclusive\":%llu,\"violations\":%llu,"
			 "\"nontrivial\":%llu,\"new_fp\":%llu,\"steps\":%llu,\"handoffs\":%llu,\"vtime_ns\":%llu,\"recycle\":%d,\"chash\":\"%016llx\",",
			 first, (unsigned long long)cnt, (unsigned long long)runs, (unsigned long long)ok,
			 (unsigned long long)inconc, (unsigned long long)viol, (unsigned long long)nontriv,
			 (unsigned long long)newfp, (unsigned long long)steps, (unsigned long long)handoffs,
			 (unsigned long long)vt, recycle ? 1 : 0, (unsigned long long)chash);
		o += b;
		memcpy(sh->counters, agg, sizeof agg);
		write_counters(o);
		o += "}";
		printf("%s\n", o.c_str());
		fflush(stdout);
		if (recycle) break;
	}
	if (fpf) fclose(fpf);
	return 0;
}

static int fp_merge(int n, char **files)
{
	std::unordered_set<uint64_t> all;
	for (int k = 0; k < n; k++) {
		FILE *f = fopen(files[k], "rb");
		if (!f) continue;
		uint64_t buf[4096]; size_t got;
		while ((got = fread(buf, 8, 4096, f)) > 0)
			for (size_t j = 0; j < got; j++) all.insert(buf[j]);
		fclose(f);
	}
	printf("DISTINCT %zu\n", all.size());
	return 0;
}

static void try_private_shm()
{
	// best-effort isolation of /dev/shm per process tree (needs root); harmless if refused
	if (getenv("SIMK_NO_NS")) return;
	if (unshare(CLONE_NEWNS) != 0) return;
	if (mount("none", "/", NULL, MS_REC | MS_PRIVATE, NULL) != 0) return;
	if (mount("simk", "/dev/shm", "tmpfs", 0, "size=4g,mode=1777")) {}
}

int harness_main(int argc, char **argv, const Harness *h)
{
	g_h = h;
	const char *prop = NULL, *replay = NULL, *out = NULL, *fpfile = NULL, *logf = NULL;
	bool worker = false, one = false, inproc = false;
	uint64_t base = 1, index = 0;
	int nsamples = 0, timeout_s = 120;
	for (int a = 1; a < argc; a++) {
		std::string s = argv[a];
		if (s == "--prop" && a + 1 < argc) prop = argv[++a];
		else if (s == "--worker") worker = true;
		else if (s == "--one") one = true;
		else if (s == "--inproc") inproc = true;
		else if (s == "--base" && a + 1 < argc) base = strtoull(argv[++a], NULL, 0);
		else if (s == "--index" && a + 1 < argc) index = strtoull(argv[++a], NULL, 0);
		else if (s == "--wid" && a + 1 < argc) g_worker_id = atoi(argv[++a]);
		else if (s == "--replay" && a + 1 < argc) replay = argv[++a];
		else if (s == "--out" && a + 1 < argc) out = argv[++a];
		else if (s == "--log" && a + 1 < argc) logf = argv[++a];
		else if (s == "--fpfile" && a + 1 < argc) fpfile = argv[++a];
		else if (s == "--samples" && a + 1 < argc) nsamples = atoi(argv[++a]);
		else if (s == "--timeout" && a + 1 < argc) timeout_s = atoi(argv[++a]);
		else if (s == "--fpmerge") return fp_merge(argc - a - 1, argv + a + 1);
		else { fprintf(stderr, "simk: unknown argument %s\n", argv[a]); return 2; }
	}
	if (!prop) { fprintf(stderr, "simk: --prop required\n"); return 2; }
	g_prop = prop;
	try_private_shm();
	shared_alloc();
	shared_reset();
	make_scratch();
	if (h->init) h->init(prop);
	int rc = 0;
	if (worker) {
		signal(SIGSEGV, crash_note); signal(SIGBUS, crash_note); signal(SIGABRT, crash_note);
		signal(SIGFPE, crash_note); signal(SIGILL, crash_note);
		rc = worker_loop(base, fpfile, nsamples);
	} else {
		RunSpec spec;
		if (replay) {
			std::string text, err;
			if (!read_file(replay, text)) { fprintf(stderr, "simk: cannot read %s\n", replay); rm_rf(g_scratch); return 2; }
			if (!spec_from_json(text, spec, err)) { fprintf(stderr, "simk: %s: %s\n", replay, err.c_str()); rm_rf(g_scratch); return 2; }
		} else if (one) {
			spec.seed = run_seed(base, prop, index);
			spec.index = index;
			h->gen(prop, spec);
		} else { fprintf(stderr, "simk: need --worker, --one or --replay\n"); rm_rf(g_scratch); return 2; }
		Result r; std::string errtext;
		if (inproc) {
			shared_reset();
			h->run(prop, spec);
			r = sh->res;
		} else {
			run_forked(spec, r, errtext, timeout_s);
		}
		if (logf) write_file(logf, errtext);
		std::vector<Decision> dec; std::vector<Fault> flt;
		if (spec.replay) { dec = spec.decisions; flt = spec.faults; }
		else { dec.assign(sh->dec, sh->dec + sh->n_dec); flt.assign(sh->flt, sh->flt + sh->n_fault); }
		if (out) {
			RunSpec o = spec;
			write_file(out, spec_json(o, dec, flt, &r, true));
		}
		result_line("RESULT", index, spec, r);
		std::string o = "COUNTERS {"; write_counters(o); o += "}";
		printf("%s\n", o.c_str());
		if (sh->dec_overflow || sh->fault_overflow) printf("NOTE trace overflow: replay by seed only\n");
		rc = r.verdict == V_OK ? 0 : r.verdict == V_VIOLATION ? 3 : 4;
	}
	rm_rf(g_scratch);
	return rc;
}

} // namespace simk

// fixed sanitizer options (non-inline so it is always emitted)
extern "C" __attribute__((used, visibility("default"))) const char *__asan_default_options()
{
	return "exitcode=77:detect_leaks=0:allow_user_segv_handler=1:abort_on_error=0:handle_abort=1:"
	       "detect_stack_use_after_return=0:quarantine_size_mb=64:malloc_context_size=12:print_legend=0";
}
