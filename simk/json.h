// minimal JSON value + parser + writer helpers (enough for replay files)
#pragma once
#include <string>
#include <vector>
#include <utility>
#include <stdint.h>

namespace simk {

struct JVal {
	enum T { NUL, BOOL, NUM, STR, ARR, OBJ } t;
	bool b;
	int64_t i;          // integers only (that is all replay files hold)
	bool neg_big;       // unused
	std::string s;
	std::vector<JVal> arr;
	std::vector<std::pair<std::string, JVal> > obj;
	JVal() : t(NUL), b(false), i(0), neg_big(false) {}
	const JVal *get(const char *k) const;
	int64_t num(const char *k, int64_t def = 0) const;
	std::string str(const char *k, const char *def = "") const;
};

bool json_parse(const std::string &text, JVal &out, std::string &err);
std::string json_escape(const std::string &s);

} // namespace simk
