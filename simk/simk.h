// simk - deterministic simulation kernel for the libqb harnesses.
// One integer (the run seed) decides workload, schedule and faults.
#pragma once
#include <stdint.h>
#include <stddef.h>
#include <string>
#include <vector>
#include <utility>
#include <map>

namespace simk {

// ---------------------------------------------------------------- randomness
static inline uint64_t mix64(uint64_t z)
{
	z += 0x9e3779b97f4a7c15ULL;
	z = (z ^ (z >> 30)) * 0xbf58476d1ce4e5b9ULL;
	z = (z ^ (z >> 27)) * 0x94d049bb133111ebULL;
	return z ^ (z >> 31);
}
uint64_t hash_str(const char *s);

struct Rng {
	uint64_t st;
	Rng() : st(0) {}
	explicit Rng(uint64_t s) : st(s) {}
	uint64_t u64() { st += 0x9e3779b97f4a7c15ULL; uint64_t z = st;
		z = (z ^ (z >> 30)) * 0xbf58476d1ce4e5b9ULL;
		z = (z ^ (z >> 27)) * 0x94d049bb133111ebULL;
		return z ^ (z >> 31); }
	uint64_t below(uint64_t n) { return n ? u64() % n : 0; }
	int64_t range(int64_t lo, int64_t hi) { return lo + (int64_t)below((uint64_t)(hi - lo + 1)); }
	bool chance(uint32_t num, uint32_t den) { return below(den) < num; }
	double unit() { return (u64() >> 11) * (1.0 / 9007199254740992.0); }
	template <class T, size_t N> T pick(const T (&arr)[N]) { return arr[below(N)]; }
};
// independent named sub-stream of a run seed
Rng stream(uint64_t seed, const char *name);

// ---------------------------------------------------------------- plan
#define SIMK_OP_ARGS 6
struct Op {
	int task;
	int kind;
	int64_t a[SIMK_OP_ARGS];
};
struct Plan {
	std::vector<std::pair<std::string, int64_t> > cfg;
	std::vector<Op> ops;
	int64_t get(const char *k, int64_t def = 0) const;
	void set(const char *k, int64_t v);
	void add(int task, int kind, int64_t a0 = 0, int64_t a1 = 0, int64_t a2 = 0,
		 int64_t a3 = 0, int64_t a4 = 0, int64_t a5 = 0);
};

// scheduling decision: when task `task` is at its `idx`-th yield point, run `to`
struct Decision { int task; uint64_t idx; int to; };
// fault: at the `idx`-th fault-eligible call of kind `kind` made by `task`
struct Fault { int task; int kind; uint64_t idx; int64_t arg; };

struct RunSpec {
	uint64_t seed;          // run seed (derives every stream)
	uint64_t index;         // position in the driver's enumeration (0 for replay files); enumerating generators use it
	bool replay;            // true: decisions/faults below are authoritative
	bool explicit_faults;   // seed mode with a fault list supplied by the generator: only these faults fire
	Plan plan;
	std::vector<Decision> decisions;
	std::vector<Fault> faults;
	RunSpec() : seed(0), index(0), replay(false), explicit_faults(false) {}
};

// ---------------------------------------------------------------- result
enum Verdict { V_OK = 0, V_VIOLATION = 1, V_INCONCLUSIVE = 2 };

struct Result {
	int verdict;
	char cls[64];
	char site[96];
	char detail[400];
	uint64_t ev_hash;       // event log hash
	uint64_t fingerprint;   // schedule / history fingerprint
	int nontrivial;
	uint64_t steps, handoffs, vtime_ns;
	int recycle;            // the run left process-wide state behind (e.g. a simulated process was killed): start a fresh worker
};

// failure reporting (first failure wins). When tasks are running the run is
// torn down; coarse harnesses poll failed().
void fail(const char *cls, const char *site, const char *fmt, ...)
	__attribute__((format(printf, 3, 4)));
void inconclusive(const char *why);
bool failed();          // violation or inconclusive already recorded
Result &result();

// event log: folded into hash, last N kept for diagnostics
void ev(uint32_t kind, int64_t a = 0, int64_t b = 0, int64_t c = 0);
void fp_mix(uint64_t v);
void set_nontrivial(int v);
void request_recycle();   // ask the driver for a fresh worker process after this run

// counters (registered by name once; cheap increments)
int counter_id(const char *group, const char *name);   // group: "probe" | "fault" | "stat"
void count(int id, uint64_t n = 1);

// ---------------------------------------------------------------- harness
struct Harness {
	const char *name;
	const char *const *op_names;      // indexed by Op.kind
	int n_op_names;
	const char *const *fault_names;   // indexed by Fault.kind (may be NULL)
	int n_fault_names;
	// fill spec.plan from spec.seed for property `prop`
	void (*gen)(const char *prop, RunSpec &spec);
	// execute; may record decisions/faults through the recorder API
	void (*run)(const char *prop, const RunSpec &spec);
	// optional one-time per-process initialisation
	void (*init)(const char *prop);
	const char *nontrivial_rule;
};
int harness_main(int argc, char **argv, const Harness *h);

// recorder (used by scheduler and fault layer; lives in shared memory so a
// crashing child leaves its trace behind)
void rec_decision(int task, uint64_t idx, int to);
void rec_fault(int task, int kind, uint64_t idx, int64_t arg);

// worker identity (unique small integer per worker process; 0 for one-shots)
int worker_id();
const char *scratch_dir();      // per-process scratch directory (tmpfs)

} // namespace simk
