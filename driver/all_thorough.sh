#!/bin/bash
# usage: [THOROUGH_BUDGET=seconds] all_thorough.sh [ids...]   -- runs the thorough tier of each claimed property in turn, prints one line per property
cd "$(dirname "$0")/.."
ids=${@:-C01 C02 C04 C05 C06 C07 C10 C11 C15 C16 C18 C19 C03 C08 C09}
for id in $ids; do
	t0=$(date +%s)
	./check $id --tier thorough ${THOROUGH_BUDGET:+--budget $THOROUGH_BUDGET} > /tmp/thorough-$id.log 2>&1; rc=$?
	echo "THOROUGH $id exit=$rc $(( $(date +%s) - t0 ))s $(grep -E "^$id thorough" /tmp/thorough-$id.log | cut -c1-200)"
	grep -E "VIOLATION|HARNESS-PROBLEM" /tmp/thorough-$id.log | cut -c1-300
done
