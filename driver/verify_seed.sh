#!/bin/bash
# usage: verify_seed.sh <worktree> <outdir>   -- confirms an independently produced breaking change:
# demo passes on the pristine tree, fails with the patch, and `make check` still passes with the patch.
wt=$1; out=$2
cd $wt || exit 2
git checkout -- . 2>/dev/null
[ -f Makefile ] || (./autogen.sh && ./configure) >/dev/null 2>&1
make -j8 >/dev/null 2>&1
( cd $out && timeout 600 bash ./run_demo.sh $wt ) >$out/verify_pristine.out 2>&1; p=$?
git apply $out/patch.diff || { echo "APPLY FAILED"; exit 3; }
make -j8 >/dev/null 2>&1
( cd $out && timeout 600 bash ./run_demo.sh $wt ) >$out/verify_patched.out 2>&1; q=$?
make -j8 check >$out/verify_make_check.log 2>&1
pass=$(grep -c "^PASS:" $out/verify_make_check.log); fail=$(grep -c "^FAIL:" $out/verify_make_check.log)
git checkout -- .
make -j8 >/dev/null 2>&1
echo "VERIFY $(basename $out): demo pristine exit=$p, demo patched exit=$q, make check with patch: PASS=$pass FAIL=$fail"
