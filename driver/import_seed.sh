#!/bin/bash
# usage: import_seed.sh <ID-n> <prop> "<caught by: classes>" "<needs>"
id=$1; prop=$2; caught=$3; needs=$4
src=/tmp/seedout-$id; dst=/verif/seeded/$id
mkdir -p $dst
cp $src/patch.diff $dst/
for f in $src/*.c $src/run_demo.sh $src/NOTES.md; do [ -f "$f" ] && cp "$f" $dst/; done
v=$(grep "VERIFY seedout-$id" /tmp/verify_batch*.log | tail -1 | sed 's/^[^:]*://')
python3 - "$dst" "$id" "$prop" "$caught" "$needs" "$v" <<'PY'
import json,sys
dst,id,prop,caught,needs,v=sys.argv[1:7]
json.dump({"id":id,"breaks_property":prop,"needs_to_manifest":needs,
 "produced_by":"fresh sub-agent given only the property text and a scratch worktree of /repo",
 "verified":v.strip(),
 "ran":"driver/verify_seed.sh (demo on pristine tree, demo with patch, make check with patch) in the scratch worktree; driver/seeded.sh %s patch.diff (check against a scratch copy of /repo with the patch applied)"%prop,
 "check_result":caught}, open(dst+'/meta.json','w'), indent=1)
PY
echo imported $id
