#!/bin/bash
# usage: seeded_all.sh [budget_s] [ids...]  -- re-runs every kept seeded change (seeded/<id>/patch.diff) against a scratch copy
# of the current /repo tree with the check of the property it breaks; prints one line per change.
cd "$(dirname "$0")/.."
budget=${1:-60}; shift
ids=${@:-$(ls seeded | grep -v '^_')}
for id in $ids; do
	prop=$(python3 -c "import json;print(json.load(open('seeded/$id/meta.json'))['breaks_property'])")
	out=$(driver/seeded.sh $prop $PWD/seeded/$id/patch.diff $budget 2>&1)
	if echo "$out" | grep -q "patch does not apply"; then echo "SEEDED $id ($prop): patch no longer applies"; continue; fi
	n=$(echo "$out" | grep -c "^VIOLATION")
	cls=$(echo "$out" | grep -o "class=[^ ]*" | sort -u | tr '\n' ' ')
	echo "SEEDED $id ($prop): violations=$n $cls"
done
