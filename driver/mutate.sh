#!/bin/bash
# usage: mutate.sh <prop> <budget_s> <file> <python-expr-replacing s>   (applies edit to /repo, runs check, reverts)
# quick sensitivity experiments; never leaves /repo modified
set -u
prop=$1; budget=$2; file=$3; old=$4; new=$5
cd /repo || exit 2
if ! git diff --quiet -- "$file"; then echo "refusing: $file has uncommitted changes"; exit 2; fi
python3 - "$file" "$old" "$new" <<'PY'
import sys
f,old,new=sys.argv[1:4]
s=open(f).read()
if s.count(old)!=1:
    print("pattern count", s.count(old)); sys.exit(3)
open(f,'w').write(s.replace(old,new))
PY
rc=$?
if [ $rc -ne 0 ]; then git checkout -- "$file"; exit $rc; fi
cd /verif && ./check "$prop" --budget "$budget" 2>&1 | grep -E "VIOLATION|class=|runs|PROBLEM" | head -8
rm -rf /verif/replays/$prop/violation-*
git -C /repo checkout -- "$file"
