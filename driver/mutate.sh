#!/bin/bash
# usage: mutate.sh <prop> <budget_s> <file relative to repo> <old text> <new text>
# Sensitivity experiment on a SCRATCH COPY of /repo (never touches /repo, /verif/evidence or /verif/replays):
# replaces the single occurrence of <old text> in <file>, runs the check against the copy, prints the outcome,
# removes the copy. The minimised replays of the run are kept under /tmp/mut-keep/<prop>/ for inspection.
set -u
prop=$1; budget=$2; file=$3; old=$4; new=$5
S=/tmp/mut-$$
mkdir -p $S/repo
rsync -a --exclude .git --exclude tests --exclude docs --exclude '*.o' --exclude '*.lo' --exclude '.libs' /repo/ $S/repo/
python3 - "$S/repo/$file" "$old" "$new" <<'PY'
import sys
f,old,new=sys.argv[1:4]
s=open(f).read()
if s.count(old)!=1:
    print("pattern count", s.count(old)); sys.exit(3)
open(f,'w').write(s.replace(old,new))
PY
rc=$?
if [ $rc -ne 0 ]; then rm -rf $S; exit $rc; fi
cd /verif && VERIF_REPO=$S/repo VERIF_BUILD=$S/build VERIF_OUT=$S/out ./check "$prop" --budget "$budget" 2>&1 | grep -E "VIOLATION|class=|runs|PROBLEM|FAILED|error" | head -12
mkdir -p /tmp/mut-keep/$prop && cp -f $S/out/replays/$prop/*.json /tmp/mut-keep/$prop/ 2>/dev/null
rm -rf $S
