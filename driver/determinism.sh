#!/bin/bash
# usage: determinism.sh [chunks] [budget_s] [ids...]
# Large-sample determinism proof: for each property the first <chunks> chunks of run indices are executed by a pool of
# 16 worker processes and again, in reverse chunk order, by a pool of 5; chunk hashes (event hash and verdict of every run)
# are compared. Writes only under /tmp/det-out (not /verif/evidence). One line per property.
cd "$(dirname "$0")/.."
chunks=${1:-48}; budget=${2:-240}; shift 2 2>/dev/null
ids=${@:-C01 C02 C03 C04 C05 C06 C07 C08 C09 C10 C11 C15 C16 C18 C19}
for id in $ids; do
	rm -rf /tmp/det-out
	VERIF_OUT=/tmp/det-out VERIF_DET_CHUNKS=$chunks VERIF_DET_WORKERS2=5 ./check $id --budget $budget --workers 16 > /tmp/det-$id.log 2>&1; rc=$?
	python3 - "$id" "$rc" <<'PY'
import json,sys
id,rc=sys.argv[1:3]
try:
    c=json.load(open('/tmp/det-out/evidence/%s.json'%id))['coverage']
    print('DETERMINISM %s exit=%s chunks_rerun=%d mismatches=%d replay_equivalence_checked=%d runs=%d'%(id,rc,c['determinism_selfcheck']['chunks_rerun'],c['determinism_selfcheck']['mismatches'],c['determinism_selfcheck']['replay_equivalence_checked'],c['evaluations']))
except Exception as e:
    print('DETERMINISM %s exit=%s no evidence (%s)'%(id,rc,e))
PY
	grep -E "HARNESS-PROBLEM|VIOLATION|class=" /tmp/det-$id.log | cut -c1-300; mkdir -p /tmp/det-keep; cp /tmp/det-out/replays/$id/violation-* /tmp/det-keep/ 2>/dev/null
done
rm -rf /tmp/det-out
