#!/bin/bash
# usage: seeded.sh <prop> <patch.diff> [budget_s]
# Runs a check against a scratch copy of /repo with an independently produced breaking change applied
# (never touches /repo, /verif/evidence or /verif/replays). Minimised replays are kept under /tmp/seed-keep/<prop>/.
set -u
prop=$1; patch=$2; budget=${3:-45}
S=/tmp/seedrun-$$
mkdir -p $S/repo
rsync -a --exclude .git --exclude tests --exclude docs --exclude '*.o' --exclude '*.lo' --exclude '.libs' /repo/ $S/repo/
if ! (cd $S/repo && patch -p1 --quiet < "$patch"); then echo "patch does not apply"; rm -rf $S; exit 3; fi
cd /verif && VERIF_REPO=$S/repo VERIF_BUILD=$S/build VERIF_OUT=$S/out ./check "$prop" --budget "$budget" 2>&1 | grep -E "VIOLATION|class=|runs|PROBLEM|FAILED|error" | cut -c1-400 | head -12
mkdir -p /tmp/seed-keep/$prop && cp -f $S/out/replays/$prop/violation-*.json /tmp/seed-keep/$prop/ 2>/dev/null
rm -rf $S
