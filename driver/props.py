"""Which harness binaries decide which property, and how they are built."""

REAL_RING = ['lib/ringbuffer.c', 'lib/ringbuffer_helper.c', 'lib/unix.c (real /dev/shm files, real circular mmap)', 'lib/util.c']

HARNESSES = {
    'ring_coarse': {'src': ['harness/ring_coarse.cc'], 'flavours': {}, 'rt': []},
    'map_iter': {'src': ['harness/map_iter.cc'], 'flavours': {}, 'rt': []},
    'ipc_sim': {'src': ['harness/ipc_sim.cc'], 'flavours': {}, 'rt': []},
    'ipc_sim_acc': {'src': ['harness/ipc_sim.cc'], 'flavours': {'ringbuffer.c': 'acc'}, 'rt': ['rt_sancov.o'],
                    'cxxflags': ['-DIPC_ACC=1', '-DHARNESS_NAME="ipc_sim_acc"']},
    'loop_sim': {'src': ['harness/loop_sim.cc'], 'flavours': {}, 'rt': []},
    'blackbox': {'src': ['harness/blackbox.cc'], 'flavours': {}, 'rt': []},
    'ring_conc_t': {'src': ['harness/ring_conc.cc'], 'flavours': {'ringbuffer.c': 'tsan', 'ringbuffer_helper.c': 'tsan'},
                    'rt': ['rt_tsan.o'], 'cxxflags': ['-DHARNESS_NAME="ring_conc_t"', '-DORDER_CHECK=1']},
    'ring_conc_a': {'src': ['harness/ring_conc.cc'], 'flavours': {'ringbuffer.c': 'acc', 'ringbuffer_helper.c': 'acc'},
                    'rt': ['rt_sancov.o'], 'cxxflags': ['-DHARNESS_NAME="ring_conc_a"']},
    'array_conc': {'src': ['harness/array_conc.cc'], 'flavours': {'array.c': 'acc'},
                   'rt': ['rt_sancov.o'], 'cxxflags': ['-DHARNESS_NAME="array_conc"']},
    # log_thread.c is access-instrumented; the harness brings its own trace-loads/stores callbacks (site = code position,
    # so that no data address reaches the event log), hence no rt_sancov.o
    'logthread': {'src': ['harness/logthread.cc'], 'flavours': {'log_thread.c': 'acc'},
                  'rt': [], 'cxxflags': ['-DHARNESS_NAME="logthread"']},
}

PROPS = {
    'C07': {
        'parts': [{'harness': 'ring_coarse', 'chunk': 400}],
        'quick_s': 30, 'thorough_s': 600,
        'level_quick': 'exploration', 'level_thorough': 'exploration',
        'rule': 'one evaluation = one seeded operation history (write / alloc+commit / read / peek / reclaim / space / drain, '
                'ring size and lengths from the seed) executed on a fresh real ring and compared step by step with a FIFO '
                'reference model; non-trivial = at least one write succeeded and one chunk was read back; distinct = distinct '
                'hash of the (operation, arguments, outcome) sequence',
        'real': REAL_RING, 'stub': ['none (no scheduling or fault seam is active in this operation-level harness)'],
        'level_text': 'seeded exploration of operation histories against a FIFO + byte-accounting reference model on the real ring '
                      '(real shm files and double mapping); samples the (size, length, history) space, does not enumerate it',
        'level_note': 'trusts the kernel tmpfs/mmap; operation-level only (no preemption inside an operation: that is C01); '
                      'ASan covers heap buffers handed to the library, the mmap region itself is checked through payload comparison',
        'technique': 'deterministic simulation (operation-level seeded histories, reference model, ddmin replay); no fault is injected for this property',
        'design_ref': 'DESIGN.md 4/C07',
        'assumptions': ['single caller; operation-level histories only (intra-operation interleavings are C01)',
                        'kernel tmpfs/mmap behave as documented'],
    },
}

PROPS['C01'] = {
    'parts': [{'harness': 'ring_conc_t', 'chunk': 200, 'share': 3.0}, {'harness': 'ring_conc_a', 'chunk': 200, 'share': 1.0}],
    'quick_s': 45, 'thorough_s': 900,
    'level_quick': 'exploration', 'level_thorough': 'exploration',
    'rule': 'one evaluation = one seeded (workload, schedule, fault) triple: a writer task and a reader task on one real shared ring '
            '(two qb_rb_open handles on the same files), preemptible at every access ring code makes to the shared header/data words, '
            'every payload word copied, and every semaphore call; FIFO reference model checked per operation and at quiescence; '
            'non-trivial = at least one write and one read succeeded and the baton changed hands more than twice; distinct = distinct '
            'fingerprint of the (yield site, task switched to) sequence',
    'level_text': 'seeded search over interleavings at shared-access granularity (sequentially consistent), lengths, sizes, wrap positions, '
                  'with and without the semaphore, plus a publish-edge memory-order check; samples, does not enumerate',
    'level_note': 'interleavings are sequentially consistent (weak-memory reorderings are only covered by the publish-edge ordering check in the '
                  'tsan-instrumented variant); scheduling points come from compiler instrumentation of ringbuffer.c / ringbuffer_helper.c, '
                  'so accesses the compiler elides or merges are not separate points; real /dev/shm files and double mapping',
    'technique': 'deterministic simulation: seeded scheduler over real threads with one baton, preemption at every instrumented shared access, '
                 'EINTR fault injection on semaphore waits, FIFO reference model, ddmin replay',
    'design_ref': 'DESIGN.md 4/C01',
    'real': REAL_RING, 'stub': ['POSIX semaphore (value kept by the shim inside the real shared header)', 'thread scheduling', 'clock'],
    'assumptions': ['sequentially consistent interleavings', 'one writer and one reader, as the API requires'],
}

REAL_BLACKBOX = ['lib/log.c', 'lib/log_blackbox.c', 'lib/log_format.c', 'lib/log_dcs.c', 'lib/ringbuffer.c', 'lib/ringbuffer_helper.c',
                 'lib/unix.c (real /dev/shm files, real circular mmap)', 'lib/array.c', 'lib/util.c',
                 'kernel tmpfs file holding the dump (open/read/write/fstat/lseek/close reach it through the libc seam)', 'glibc vsnprintf / localtime / strftime']
STUB_BLACKBOX = ['realtime clock (virtual: timestamps are seeded)', 'outcome of the dump\'s write() calls and the printer\'s read() calls (fault sites of the seam)',
                 'the fixed shm name qb-create_from_file-* (rewritten per worker process)', 'syslog target (disabled)']

PROPS['C11'] = {
    'parts': [{'harness': 'ring_coarse', 'chunk': 400, 'share': 1.0}, {'harness': 'blackbox', 'chunk': 100, 'share': 1.0}],
    'quick_s': 30, 'thorough_s': 600,
    'level_quick': 'exploration', 'level_thorough': 'exploration',
    'rule': 'part ring_coarse: one evaluation = one seeded history on a fresh overwrite ring (writes of tiny to near-capacity chunks, single reads and '
            'full drains placed at seeded points between operations); the drained sequence must be a suffix of the written one, '
            'byte-identical, at least as long as the number of newest chunks that fit in S at 16 bytes overhead each; '
            'non-trivial = at least one write and one read-back; distinct = distinct (operation, argument, outcome) hash. '
            'part blackbox: one evaluation = one seeded logging program inside one simulator task (blackbox of 1024..70000 bytes, seeded line length, '
            '1..260 log calls with the serial in the line number and the text, seeded priorities / function names / tags / formats / arguments / '
            'virtual timestamps), qb_log_blackbox_write_to_file at one or two seeded instants between two log calls (no fault injected), '
            'qb_log_blackbox_print_from_file with stdout captured; the printed records must be an unbroken ascending run of serials ending with the '
            'last one logged before that dump; non-trivial = at least two records dumped, printed and compared; distinct = distinct hash of the '
            '(operation, argument, outcome) sequence',
    'level_text': 'seeded exploration of overwrite-ring histories and dump instants against a suffix reference model on the real ring, and of '
                  'logging histories / dump instants on the real logging blackbox (real log.c, log_blackbox.c, log_format.c, ring and dump file) '
                  'against the list of records logged before the dump',
    'level_note': 'dump/read-back instants are between operations only (the property does not promise mid-operation dumps); trusts kernel tmpfs/mmap; '
                  'blackbox part: libqb\'s own internal messages (recognised by their source line numbers, all below 5000) share the blackbox and are skipped when the run of serials is judged; '
                  'how many records must be retained is not judged (only: at least the newest, and no gap)',
    'technique': 'deterministic simulation (seeded histories with the read-back/dump instant chosen by the scheduler, suffix reference model, ddmin replay); '
                 'the blackbox part runs inside a simulator task with the libc seam active and no fault enabled (the fault-free baseline of C15)',
    'design_ref': 'DESIGN.md 4/C11',
    'real': REAL_RING + REAL_BLACKBOX[:4] + REAL_BLACKBOX[9:], 'stub': ['none (ring part)'] + STUB_BLACKBOX[:1] + STUB_BLACKBOX[2:],
    'assumptions': ['read-back happens between logger/writer operations, never inside one',
                    'single logging thread; line numbers below 65536 (the dynamic call-site table is indexed by line)'],
}

PROPS['C15'] = {
    'parts': [{'harness': 'blackbox', 'chunk': 100}],
    'quick_s': 40, 'thorough_s': 900,
    'level_quick': 'exploration', 'level_thorough': 'exploration',
    'rule': 'one evaluation = one seeded program for the logging blackbox inside one simulator task: blackbox size and line length, n log calls '
            '(serials, priorities, function names of 1..200 chars, tags, 33 hand-written formats and, in half the runs, generated ones: 1..6 conversions in any order from 80 specifications - flags, width, precision, *, h hh l ll z t j L, d i o u x X c s p e f g a %% - with literal text in between; arguments, virtual timestamps), dump(s) at seeded instants, then '
            'either nothing (round-trip class, 40% of runs) or a fault program (60%): the k-th write of the dump short / failing with ENOSPC or EIO / lost; '
            'at rest: truncation to every length of the header region and seeded lengths beyond, "died after the k-th write", each ring header word set '
            'to boundary values (0, 1, 2^32-1, size/4 +-1, word_size +-1, 2*word_size, file size, the other pointer, mid-chunk) with the header hash '
            'recomputed, the new-format marker block, chunk length and magic words, per-record fields (line, tags, priority, fn_size, function NUL, '
            'timestamp, msg_len), conversions planted in the stored format string, 1..32 random byte flips, appended bytes; files that never were a dump '
            '(empty, 1..64 bytes, up to 300 kB, random / constant / consistent header over random data); the k-th read of the printer short or failing '
            'with EINTR / EIO; then qb_log_blackbox_print_from_file with stdout captured; non-trivial = at least two records logged, dumped, printed and '
            'compared field by field, or a damaged file printed to completion; distinct = distinct hash of the (operation, argument, outcome) sequence',
    'level_text': 'seeded exploration: fault-free runs compare every printed record with the priority name, function, line, tags, timestamp (to the '
                  'millisecond, as printed) and text it was logged with; fault runs inject storage faults through the libc seam and at-rest damage with '
                  'recomputed header hash and require only that the printer returns (any code), with no crash / assert / ASan report, within a step '
                  'bound, leaving no /dev/shm/qb-create_from_file-* behind; samples the space, does not enumerate it',
    'level_note': 'records printed from a damaged file are not compared with anything; a text whose serialized form does not fit the line length may be '
                  'printed as the library\'s "too long" notice or cut; one trailing newline may be dropped (as every libqb target does); the extended-'
                  'information marker is expected as "|"; the ring the printer re-creates is a plain mmap that ASan does not watch, so the harness gives it '
                  'an address range of its own between PROT_NONE regions (every other free gap is plugged just before libqb reserves the range): an index '
                  'outside the double mapping faults at once and identically in every process; every run executes in a child process of its own '
                  '(qb_log_fini does not reset the dynamic call-site counter, so runs would otherwise depend on their predecessors); '
                  'posix_fallocate above 64 MiB is refused by the seam so that a lying word_size cannot exhaust memory; libqb\'s own messages '
                  '(line numbers below 5000) share the blackbox and are skipped by the round-trip comparison; stimulus groups that trigger a '
                  'listed known finding are switched off in the generator (tokens in harness/blackbox.cc)',
    'technique': 'deterministic simulation with storage-fault injection at the file seam (short / failing / lost writes, short / failing reads as explicit '
                 '(task, kind, n-th call) fault records), crash-after-k-th-write and at-rest corruption of the durable state, virtual clock, '
                 'record-list reference model, ASan, ddmin replay',
    'design_ref': 'DESIGN.md 4/C15',
    'real': REAL_BLACKBOX, 'stub': STUB_BLACKBOX,
    'assumptions': ['single logging thread; dump and print happen between log calls',
                    'line numbers 5001..65535 (the dynamic call-site table is indexed by line; lower numbers are left to libqb\'s own messages); priorities 0..8; tags without bit 31'],
}

REAL_LOOP = ['lib/loop.c', 'lib/loop_job.c', 'lib/loop_timerlist.c', 'include/tlist.h', 'lib/loop_poll.c', 'lib/loop_poll_epoll.c',
             'lib/array.c', 'lib/util.c', 'kernel epoll, pipes and signal delivery (real, called non-blocking)']
STUB_LOOP = ['clock_gettime / clock_getres / gettimeofday (virtual clock)', 'blocking in epoll_wait (zero-timeout real call + virtual time jump)',
             'random() (full-period sequence)', 'outside world: bytes arriving, peers closing, signals (scripted in the plan)']

PROPS['C08'] = {
    'parts': [{'harness': 'loop_sim', 'chunk': 200}],
    'quick_s': 40, 'thorough_s': 900,
    'level_quick': 'exploration', 'level_thorough': 'exploration',
    'rule': 'one evaluation = one seeded loop program (registrations, operations bound to the n-th invocation of a callback, external '
            'events at virtual times, asynchronous signals at libc-call indices; seeded clock base/resolution, EINTR - at once or after part of the '
            'wait - and shuffled/shortened epoll batches; callbacks returning any value of the documented class, negative returns with the '
            'descriptor kept open, second adds of watched descriptors, timers without a handle, job deletes naming a timer, level changes of '
            'handlers with deliveries on their way, a second loop instance run from a callback, the loop run again after a stop; one run in '
            'fourteen instead has several threads adding timers at once) run on the real qb_loop against a registration model; non-trivial = at least two callbacks over at least two '
            'iterations; distinct = distinct hash of the event sequence',
    'level_text': 'seeded search over add/modify/delete histories issued from outside and inside callbacks, with readiness, signals and time '
                  'under simulator control; exactly-once, never-after-delete, stale-handle, FIFO and stop oracles plus ASan; samples histories',
    'level_note': 'liveness is judged against an iteration bound derived from the model (4 items per level per turn, a turn every third '
                  'iteration) extended by injected batch shortening; descriptors are closed only after poll_del or a negative return '
                  '(the documented use); epoll back-end only',
    'technique': 'deterministic simulation: virtual clock, scripted external events and asynchronous signals, EINTR and epoll batch faults, '
                 'registration reference model, ddmin replay',
    'design_ref': 'DESIGN.md 4/C08',
    'real': REAL_LOOP, 'stub': STUB_LOOP,
    'assumptions': ['single loop thread', 'epoll back-end'],
}
PROPS['C09'] = {
    'parts': [{'harness': 'loop_sim', 'chunk': 200}],
    'quick_s': 40, 'thorough_s': 900,
    'level_quick': 'exploration', 'level_thorough': 'exploration',
    'rule': 'one evaluation = one seeded timer program (1..40 timers with durations from 0 to 2^64-1 ns incl. the 2^31/2^32 ms and overflow '
            'boundaries, add/delete/query histories, jobs, busy callbacks, clock base up to 2^63, clock resolution 1 ns..10 ms) on the real '
            'loop under a virtual clock; every epoll_wait timeout and every dispatch instant is checked in 128-bit arithmetic; '
            'non-trivial = at least two callbacks over two iterations; distinct = distinct event-sequence hash',
    'level_text': 'seeded search over durations, heap shapes and histories with exact virtual time: never-early, expiry order, no sleep past '
                  'earliest expiry + slack, never blocks indefinitely with a timer pending, query consistency',
    'level_note': 'slack allowed = one clock tick + 1 ms rounding + the 50 ms job throttle whenever any job is pending (an over-approximation of '
                  '"jobs were just queued"); dispatch lateness is bounded in iterations after the first wake-up past expiry',
    'technique': 'deterministic simulation with a discrete-event virtual clock (every clock read and epoll timeout under simulator control), '
                 'timer-set reference model, ddmin replay',
    'design_ref': 'DESIGN.md 4/C09',
    'real': REAL_LOOP, 'stub': STUB_LOOP,
    'assumptions': ['single loop thread', 'monotonic clock never goes backwards'],
}
PROPS['C10'] = {
    'parts': [{'harness': 'loop_sim', 'chunk': 50}],
    'quick_s': 40, 'thorough_s': 900,
    'level_quick': 'exploration', 'level_thorough': 'exploration',
    'rule': 'one evaluation = one seeded steady-state workload (self-re-adding jobs, always-ready descriptors, zero-delay re-arming timers at '
            'seeded priorities, plus finite bursts) run for 50..100000 loop iterations (one epoll_wait = one iteration) at no wall-clock cost; '
            '(a fifth of the runs: 4..9 always-ready descriptors, mostly at one level; a quarter of the runs with descriptors: qb_loop_poll_mod to another level, delete and re-add of always-ready descriptors from inside callbacks); per-level dispatch counts are checked over every window of '
            'three iterations and every single item against its bound; non-trivial = at least two callbacks over two iterations; distinct = '
            'distinct event-sequence hash',
    'level_text': 'seeded search over continuously-pending workload mixes and run lengths; window-of-three no-starvation oracle, '
                  'HIGH >= MED >= LOW dispatch-opportunity oracle, and a per-item bound (an item that joins level p behind n others is '
                  'dispatched within 3 * (ceil((n + 1) / 4) + 1) + 5 iterations: FIFO within a level, four items per turn, a turn at least every '
                  'third iteration)',
    'level_note': '"pending work" is counted only for items pending for at least three iterations (so that they have certainly been moved to the '
                  'dispatch list), which makes the oracle slightly weaker than the statement and never stronger',
    'technique': 'deterministic simulation: virtual clock and always-ready descriptors make continuously pending load free, iteration-window '
                 'oracle, ddmin replay',
    'design_ref': 'DESIGN.md 4/C10',
    'real': REAL_LOOP, 'stub': STUB_LOOP,
    'assumptions': ['single loop thread'],
}

PROPS['C19'] = {
    'parts': [{'harness': 'array_conc', 'chunk': 200}],
    'quick_s': 40, 'thorough_s': 600,
    'level_quick': 'exploration', 'level_thorough': 'exploration',
    'rule': 'one evaluation = one seeded (configuration, workload, schedule) triple: 1-4 tasks on one shared qb_array_t (element size, '
            'initial size, autogrow, new_bin_cb and always-moving realloc chosen by the seed) doing index / grow / use-saved-pointer '
            'operations over the whole index range (negative, >= 65536, just beyond the size, bin edges), preemptible at every access '
            'array.c makes to the array header and to the bin pointer table and at every lock call; a per-index model (first address, '
            'last pattern written, bounds on the size) is checked after every call and in a final sequential pass over every element '
            'ever obtained; non-trivial = at least two tasks each completed a successful index and the baton changed hands more than '
            'twice (single-task baseline runs: at least one growth and one re-read of a written element); distinct = distinct '
            'fingerprint of the (yield site, task switched to) sequence combined with the (operation, argument, outcome) sequence',
    'level_text': 'seeded search over interleavings of index/grow calls at shared-access granularity (sequentially consistent), element '
                  'sizes, initial sizes, autogrow settings and sparse index sequences over the full range, with ASan watching the '
                  'bin table and the bins; samples, does not enumerate',
    'level_note': 'interleavings are sequentially consistent; scheduling points come from compiler instrumentation of array.c '
                  '(trace-loads/stores) restricted to the array header and the current bin pointer table, plus the lock calls, so '
                  'accesses the compiler merges are not separate points; return codes under concurrency are judged only where the '
                  'model can know them (range error demanded only when no grow covering the index had even started before the call '
                  'returned, success demanded only when the size already covered the index when the call started); in a fifth '
                  'of the runs malloc / calloc / realloc made by array.c fail at a seeded rate: the call in which an allocation '
                  'failed may return -ENOMEM and counts as not having grown anything, every other guarantee is judged as usual',
    'technique': 'deterministic simulation: seeded scheduler over real threads with one baton, preemption at every instrumented shared '
                 'access and lock call, realloc forced to move (fault kind "realloc always moves"), allocation failures '
                 'injected at the libc seam (fault kind alloc_enomem, recorded per (task, n-th allocation)), address/content '
                 'reference model, ASan, ddmin replay',
    'design_ref': 'DESIGN.md 4/C19',
    'real': ['lib/array.c', 'lib/util.c (qb_thread_lock)', 'glibc/ASan allocator'],
    'stub': ['pthread mutex/spin lock waiting (state kept by the shim)', 'thread scheduling', 'realloc placement (always moves in 7 of 8 runs)'],
    'assumptions': ['sequentially consistent interleavings',
                    'two threads never write the same element (indices are partitioned among the tasks): the property is about the library, not about user races',
                    'calloc/realloc do not fail'],
}

PROPS['C18'] = {
    'parts': [{'harness': 'map_iter', 'chunk': 400}],
    'quick_s': 35, 'thorough_s': 600,
    'level_quick': 'exploration', 'level_thorough': 'exploration',
    'rule': 'one evaluation = one seeded interleaving, at operation granularity, of one mutator (put new / replace, rm of a present key, '
            'an absent key, the key a given walker is positioned on, the last remaining key, all keys; get; count) with 1-4 walkers '
            '(iter_create or trie pref_iter_create, iter_next, iter_free at any point, qb_map_foreach whose callback may delete the '
            'current item and may abort) on a fresh hashtable, skiplist or trie over a universe of 8-40 prefix-sharing keys; the plan '
            'order is the schedule; a dictionary model with, per iteration, the sets of keys present throughout / ever present is '
            'checked at every returned key, at every completed iteration and, whenever no iterator is open and again after the last '
            'one is freed, against get of every key, count, rm results and a fresh full iteration; non-trivial = at least one iteration '
            'completed and was judged with a mutation during it; distinct = distinct hash of the (task, operation, arguments, outcome) sequence',
    'level_text': 'seeded search over operation-level interleavings of iterator create/next/free/foreach with put/rm/get/count on one map, '
                  'all three implementations, up to four simultaneously open iterators, with ASan watching every node; samples, does not enumerate',
    'level_note': 'operation granularity only (the map API is single-threaded; nothing preempts inside a call); while an iterator is open the '
                  'results of get/rm/count are executed but not judged (the property promises dictionary behaviour once the iterators are gone); '
                  'iteration order is not judged; a put that replaces a value counts as an insertion (at-least-once rule); a value announced '
                  'through QB_MAP_NOTIFY_FREE must not be announced again or handed out later (the header tells callers to free values there); '
                  'empty keys and empty prefixes are not generated; allocation failure is not injected',
    'technique': 'deterministic simulation (seeded workload and operation-level schedule of cooperating parties, dictionary + per-iteration key-set '
                 'reference model, ASan, ddmin replay); no fault is injected for this property',
    'design_ref': 'DESIGN.md 4/C18',
    'real': ['lib/map.c', 'lib/hashtable.c', 'lib/skiplist.c', 'lib/trie.c', 'glibc/ASan allocator'],
    'stub': ['random() seed (skiplist levels): srandom() from the plan after qb_skiplist_create reseeds from the clock',
             'scheduling of the parties (the plan order is the schedule)'],
    'assumptions': ['single caller: parties interleave between API calls, never inside one',
                    'keys are non-empty NUL-terminated strings owned by the caller for the life of the process',
                    'values are non-NULL'],
}

REAL_IPC = ['lib/ipcc.c', 'lib/ipcs.c', 'lib/ipc_setup.c', 'lib/ipc_shm.c', 'lib/ipc_socket.c', 'lib/ringbuffer.c', 'lib/ringbuffer_helper.c',
            'lib/unix.c', 'lib/loop*.c (the server runs the real qb_loop)', 'kernel AF_UNIX stream/datagram sockets, epoll, tmpfs files, mmap (real, non-blocking)']
STUB_IPC = ['process identity, liveness and death (sim pids; a killed process has its descriptors closed by the shim, nothing else)',
            'peer credentials in SCM_CREDENTIALS (rewritten by the shim to the simulated uid/gid/pid of the tracked peer)',
            'file ownership (chown ledger)', 'clock, sleeping, blocking in poll/epoll_wait/sem_wait', 'thread/process scheduling', 'random()']
IPC_RULE = ('one evaluation = one seeded (scripts, schedule, faults) triple in one OS process: a server sim-process (real qb_loop + qb_ipcs '
            'service; its application layer is driven by the plan), 1..3 client sim-processes running scripts against qb_ipcc, %s; tasks '
            'interleave at libc calls under the seeded scheduler (negotiated maxima include page-filling ones, callbacks return any value of '
            'the documented class, statistics are read and cleared, a slow msg_process lets hundreds of requests pile up, EINTR comes at '
            'once or after part of a wait, a close of a number that is not open is reported); non-trivial = %s; distinct = distinct fingerprint of the (yield site, '
            'task switched to) sequence')

def _ipc(extra_parties, nontrivial, **kw):
    d = {
        'parts': [{'harness': 'ipc_sim', 'chunk': 40}], 'quick_s': 60, 'thorough_s': 900,
        'level_quick': 'exploration', 'level_thorough': 'exploration',
        'rule': IPC_RULE % (extra_parties, nontrivial),
        'real': REAL_IPC, 'stub': STUB_IPC,
    }
    d.update(kw)
    return d

PROPS['C02'] = _ipc('no hostile party', 'at least two messages were delivered and verified byte for byte',
    level_text='seeded search over message lengths, bursts, flow-control toggles and client/server interleavings on both transports; per-connection '
               'FIFO reference model for requests, responses and events (exactly once, in order, intact), refusal-has-no-effect, EMSGSIZE boundary, '
               'readable-while-events-queued invariant, bounded-liveness tail with faults off',
    level_note='interleavings at libc-call granularity (ring internals additionally in C01); sends whose sender cannot know whether they were queued '
               '(sendv_recv failing in its receive half, disconnect errors) are accepted either way; liveness judged only after faults stop, within 400 receive rounds',
    technique='deterministic simulation with fault injection (EINTR, short stream I/O, tiny SO_SNDBUF making the notification socket really fill), FIFO reference models, ddmin replay',
    design_ref='DESIGN.md 4/C02',
    assumptions=['one thread per process', 'abstract-namespace sockets (no /etc/libqb/force-filesystem-sockets)'])
PROPS['C03'] = _ipc('no hostile party; a second part enumerates, for five fixed base scenarios x two transports x victim in {client, server}, every kill point k < 296 of the victim (kill immediately before its k-th libc call) plus every prefix length of the connection request, each under three schedules', 'at least one connection was announced and the baton changed hands more than four times',
    level_text='seeded search over crash points: the victim (a client, or the server) is killed immediately before a seeded libc call of its own '
               '(kill points recorded per task, so they survive shrinking), with short handshake writes, on both transports; oracles: destroyed exactly '
               'once / closed iff created, witness clients still served, server descriptors and /dev/shm back to baseline, client calls bounded in '
               'virtual time after server death',
    level_note='crash points are libc-call boundaries of the dying process (not mid-ring-operation instants); latency is the time the call itself spent '
               'waiting, scheduling latency of the caller excluded; plain qb_ipcc_recv(-1) is not required to return (the property promises that only for '
               'sendv_recv and event_recv); thorough tier samples more kill points, it does not yet enumerate all of them',
    technique='deterministic simulation with crash injection at every libc-call boundary of the victim (seeded sampling in the quick tier, complete enumeration of base scenarios in the thorough tier), virtual time, descriptor/shm ledgers, ddmin replay',
    design_ref='DESIGN.md 4/C03',
    level_thorough='fault_enumeration',
    assumptions=['a dead process only loses its descriptors; shared memory it wrote stays as it was'])
PROPS['C02']['parts'] = [{'harness': 'ipc_sim', 'chunk': 40, 'share': 2.0}, {'harness': 'ipc_sim_acc', 'chunk': 20, 'share': 1.0}]
PROPS['C03']['parts'] = [{'harness': 'ipc_sim', 'chunk': 40, 'share': 1.0}, {'harness': 'ipc_sim_acc', 'chunk': 20, 'share': 0.7},
                         {'harness': 'ipc_sim', 'name': 'ipc_enum', 'prop_arg': 'C03E', 'chunk': 64, 'share': 1.0,
                          'enum_space': 20352, 'quick_stride': True}]
PROPS['C04'] = _ipc('no hostile party', 'at least one connection was announced and the baton changed hands more than four times',
    level_text='seeded search over histories of connects, disconnects/deaths, server-initiated disconnects from callbacks, jobs and timers, extra '
               'references dropped later, closed-callback retries, rate-limit changes, list walks and service destruction; callback-order automaton per '
               'connection generation plus AddressSanitizer on all libqb code',
    level_note='the application layer obeys the API (balanced references, no call on a destroyed connection, no disconnect of a connection it already saw closed); '
               'a connection disconnected from inside its own connection_created callback is not required to see connection_closed',
    technique='deterministic simulation (seeded histories and schedules, EINTR/short I/O faults), callback-order reference automaton, ASan, ddmin replay',
    design_ref='DESIGN.md 4/C04',
    assumptions=['one thread per process'])
PROPS['C05'] = _ipc('no hostile party', 'at least one connection was announced and the baton changed hands more than four times',
    level_text='seeded search over client credentials, accept decisions/errnos, auth_set choices and concurrent connects; credentials oracle, '
               'refusal oracle (errno, no leftovers, no msg_process), and file mode/ownership invariants evaluated between every two server system calls',
    level_note='ownership is a ledger kept by the shim (the simulated uids need not exist); directories are allowed mode 0770 as created by the library; '
               'modes chosen by the accept callback always include 0600',
    technique='deterministic simulation with simulated kernel credentials and an observer at every server libc call, ddmin replay',
    design_ref='DESIGN.md 4/C05',
    assumptions=['SO_PASSCRED/SCM_CREDENTIALS path (Linux)'])
PROPS['C06'] = _ipc('a hostile sim-process writing arbitrary handshake bytes and raw request chunks/datagrams', 'at least one connection was announced and the baton changed hands more than four times',
    level_text='seeded Byzantine-peer injection: every prefix / mutated field / garbage on the handshake socket, dribbled byte-wise with stalls; after a '
               'legitimate handshake raw request chunks/datagrams whose length field lies; a well-behaved control client must still be served; '
               'msg_process bounds, ASan, descriptor and /dev/shm baselines',
    level_note='a /dev/shm quota (posix_fallocate ENOSPC above 64 MiB) bounds what a hostile max_msg_size can make the server allocate',
    technique='deterministic simulation with a hostile peer on the simulated transport (message-level fault injection), ASan, ddmin replay',
    design_ref='DESIGN.md 4/C06',
    assumptions=['the hostile peer can only use the channels the handshake gave it'])

PROPS['C16'] = {
    # C16 speaks of "a producer": messages of several threads logging at the same instant are not judged (a second
    # thread entering the logger while another is inside is turned away by libqb's recursion guard; demanding its
    # delivery would ask for more than the property states), so that plan shape is never generated
    'always_avoid': ['concurrent-producers'],
    'parts': [{'harness': 'logthread', 'chunk': 100, 'det_chunks_thorough': 20}],
    'quick_s': 40, 'thorough_s': 900,
    'level_quick': 'exploration', 'level_thorough': 'exploration',
    'rule': 'one evaluation = one seeded (plan, schedule, fault) triple executed in a fresh process image: an application task issuing '
            'logging API calls drawn from the legal grammar (1-3 qb_log_init .. qb_log_fini cycles; custom targets opened, filtered, '
            'formatted, enabled/disabled, switched to and from threaded mode, reconfigured, closed and re-opened; qb_log_thread_start '
            'before, between or after those; priority set; log x n with sizes up to beyond the line limit, occasionally enough 4 KiB '
            'messages to exceed the 512000 byte backlog), 0-2 extra producer tasks logging in bursts while every target in use is '
            'threaded, and the logging thread libqb creates itself; preemptible at every load/store log_thread.c makes outside the '
            'running thread\'s own stack, at every lock/semaphore/thread call and inside the (slow) logger callback; a per-message, '
            'per-target model says what must have been written synchronously, what must have been written by the worker when '
            'qb_log_fini returns, and what may go either way because a control call overtook a queued record; "%d messages lost" '
            'reports are captured and compared with the messages that never arrived; non-trivial = at least two messages were written '
            'by the logging thread and the baton changed hands more than twice; distinct = distinct fingerprint of the (yield site, '
            'task switched to) sequence',
    'level_text': 'seeded search over orders of init / set-threaded / thread-start / control / log / fini / re-init and over '
                  'application-worker-producer interleavings at shared-access granularity (sequentially consistent), with worker stalls '
                  'and EINTR on semaphore waits; exactly-once, per-producer order, nothing after fini, nothing left queued, lost-count '
                  'accounting against a backlog bound, plus ASan and deadlock detection; samples, does not enumerate',
    'level_note': 'interleavings are sequentially consistent; scheduling points inside the library come from compiler instrumentation of '
                  'log_thread.c only (log.c is preemptible at its lock calls and inside the harness\'s logger callback), so accesses the '
                  'compiler merges are not separate points; routing (which targets a call site selects) is read from the documented '
                  'cs->targets bitmap at the time of the call and not judged here (that is C12); a queued record overtaken by a '
                  'disable / close / CONF_THREADED off / filter removal of its target is accepted delivered or not; order is judged per '
                  'producer and per path (worker / synchronous); pthread_setschedparam on the logging thread fails only for an '
                  'out-of-range priority (EINVAL, which drives the failed-start clean-up of qb_log_thread_start), never with EPERM; '
                  'allocation failure is not injected',
    'technique': 'deterministic simulation: seeded scheduler over real threads with one baton (the logging thread is the one libqb creates, '
                 'adopted through the pthread_create seam), preemption at every instrumented access of log_thread.c and every '
                 'lock/semaphore call, stall strategy aimed at the worker, EINTR fault injection, delivery reference model, captured '
                 'stdout, fork-per-run isolation, ASan, ddmin replay',
    'design_ref': 'DESIGN.md 4/C16',
    'real': ['lib/log_thread.c', 'lib/log.c', 'lib/log_format.c', 'lib/log_dcs.c', 'lib/array.c', 'lib/util.c (qb_thread_lock)', 'glibc vsnprintf/stdio, ASan allocator'],
    'stub': ['POSIX semaphores, spin lock and rwlock waiting (state kept by the shim)', 'pthread_create / pthread_join (simulator tasks)',
             'pthread_setschedparam (priority range check only)', 'thread scheduling', 'clock', 'syslog target (disabled right after qb_log_init)'],
    'assumptions': ['sequentially consistent interleavings',
                    'control calls come from one application thread; other threads only log, and only while every target in use is threaded (qblog.h)',
                    'logger callbacks do not log themselves', 'malloc does not fail'],
}

NOT_APPLICABLE = {
    'C12': 'log routing is a pure function of one caller\'s configuration and call-site sequence: no schedule, clock, I/O outcome, peer or crash point for a simulator to control (DESIGN.md section 5)',
    'C13': 'log line formatting is a pure function of (format string, message, call-site fields, timestamp, limit): input generation alone would be fuzzing, not simulation (DESIGN.md section 5)',
    'C14': 'blackbox record encode/decode are pure functions of (format, arguments, buffer sizes); damage to stored records is covered as a storage fault under C15 (DESIGN.md section 5)',
    'C17': 'single-caller operation sequences on an in-memory map with synchronous notifiers: nothing nondeterministic to simulate (DESIGN.md section 5)',
    'C20': 'single-caller handle create/get/put/destroy sequences; the only nondeterminism is the random() tag, which the property treats as an implementation device (DESIGN.md section 5)',
}
# claimed in DESIGN.md but whose check is not built yet in this tree
PENDING = {k: 'check not built yet (designed in DESIGN.md section 4); will be claimed when its harness lands' for k in
           ['C02', 'C03', 'C04', 'C05', 'C06']}
