"""Which harness binaries decide which property, and how they are built."""

REAL_RING = ['lib/ringbuffer.c', 'lib/ringbuffer_helper.c', 'lib/unix.c (real /dev/shm files, real circular mmap)', 'lib/util.c']

HARNESSES = {
    'ring_coarse': {'src': ['harness/ring_coarse.cc'], 'flavours': {}, 'rt': []},
}

PROPS = {
    'C07': {
        'parts': [{'harness': 'ring_coarse', 'chunk': 400}],
        'quick_s': 30, 'thorough_s': 600,
        'level_quick': 'exploration', 'level_thorough': 'exploration',
        'rule': 'one evaluation = one seeded operation history (write / alloc+commit / read / peek / reclaim / space / drain, '
                'ring size and lengths from the seed) executed on a fresh real ring and compared step by step with a FIFO '
                'reference model; non-trivial = at least one write succeeded and one chunk was read back; distinct = distinct '
                'hash of the (operation, arguments, outcome) sequence',
        'real': REAL_RING, 'stub': ['none (no scheduling or fault seam is active in this operation-level harness)'],
        'level_text': 'seeded exploration of operation histories against a FIFO + byte-accounting reference model on the real ring '
                      '(real shm files and double mapping); samples the (size, length, history) space, does not enumerate it',
        'level_note': 'trusts the kernel tmpfs/mmap; operation-level only (no preemption inside an operation: that is C01); '
                      'ASan covers heap buffers handed to the library, the mmap region itself is checked through payload comparison',
        'technique': 'deterministic simulation (operation-level seeded histories, reference model, ddmin replay); no fault is injected for this property',
        'design_ref': 'DESIGN.md 4/C07',
        'assumptions': ['single caller; operation-level histories only (intra-operation interleavings are C01)',
                        'kernel tmpfs/mmap behave as documented'],
    },
}

NOT_APPLICABLE = {
    'C12': 'log routing is a pure function of one caller\'s configuration and call-site sequence: no schedule, clock, I/O outcome, peer or crash point for a simulator to control (DESIGN.md section 5)',
    'C13': 'log line formatting is a pure function of (format string, message, call-site fields, timestamp, limit): input generation alone would be fuzzing, not simulation (DESIGN.md section 5)',
    'C14': 'blackbox record encode/decode are pure functions of (format, arguments, buffer sizes); damage to stored records is covered as a storage fault under C15 (DESIGN.md section 5)',
    'C17': 'single-caller operation sequences on an in-memory map with synchronous notifiers: nothing nondeterministic to simulate (DESIGN.md section 5)',
    'C20': 'single-caller handle create/get/put/destroy sequences; the only nondeterminism is the random() tag, which the property treats as an implementation device (DESIGN.md section 5)',
}
# claimed in DESIGN.md but whose check is not built yet in this tree
PENDING = {k: 'check not built yet (designed in DESIGN.md section 4); will be claimed when its harness lands' for k in
           ['C01', 'C02', 'C03', 'C04', 'C05', 'C06', 'C08', 'C09', 'C10', 'C11', 'C15', 'C16', 'C18', 'C19']}
