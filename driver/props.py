"""Which harness binaries decide which property, and how they are built."""

REAL_RING = ['lib/ringbuffer.c', 'lib/ringbuffer_helper.c', 'lib/unix.c (real /dev/shm files, real circular mmap)', 'lib/util.c']

HARNESSES = {
    'ring_coarse': {'src': ['harness/ring_coarse.cc'], 'flavours': {}, 'rt': []},
    'ring_conc_t': {'src': ['harness/ring_conc.cc'], 'flavours': {'ringbuffer.c': 'tsan', 'ringbuffer_helper.c': 'tsan'},
                    'rt': ['rt_tsan.o'], 'cxxflags': ['-DHARNESS_NAME="ring_conc_t"', '-DORDER_CHECK=1']},
    'ring_conc_a': {'src': ['harness/ring_conc.cc'], 'flavours': {'ringbuffer.c': 'acc', 'ringbuffer_helper.c': 'acc'},
                    'rt': ['rt_sancov.o'], 'cxxflags': ['-DHARNESS_NAME="ring_conc_a"']},
}

PROPS = {
    'C07': {
        'parts': [{'harness': 'ring_coarse', 'chunk': 400}],
        'quick_s': 30, 'thorough_s': 600,
        'level_quick': 'exploration', 'level_thorough': 'exploration',
        'rule': 'one evaluation = one seeded operation history (write / alloc+commit / read / peek / reclaim / space / drain, '
                'ring size and lengths from the seed) executed on a fresh real ring and compared step by step with a FIFO '
                'reference model; non-trivial = at least one write succeeded and one chunk was read back; distinct = distinct '
                'hash of the (operation, arguments, outcome) sequence',
        'real': REAL_RING, 'stub': ['none (no scheduling or fault seam is active in this operation-level harness)'],
        'level_text': 'seeded exploration of operation histories against a FIFO + byte-accounting reference model on the real ring '
                      '(real shm files and double mapping); samples the (size, length, history) space, does not enumerate it',
        'level_note': 'trusts the kernel tmpfs/mmap; operation-level only (no preemption inside an operation: that is C01); '
                      'ASan covers heap buffers handed to the library, the mmap region itself is checked through payload comparison',
        'technique': 'deterministic simulation (operation-level seeded histories, reference model, ddmin replay); no fault is injected for this property',
        'design_ref': 'DESIGN.md 4/C07',
        'assumptions': ['single caller; operation-level histories only (intra-operation interleavings are C01)',
                        'kernel tmpfs/mmap behave as documented'],
    },
}

PROPS['C01'] = {
    'parts': [{'harness': 'ring_conc_t', 'chunk': 200, 'share': 3.0}, {'harness': 'ring_conc_a', 'chunk': 200, 'share': 1.0}],
    'quick_s': 45, 'thorough_s': 900,
    'level_quick': 'exploration', 'level_thorough': 'exploration',
    'rule': 'one evaluation = one seeded (workload, schedule, fault) triple: a writer task and a reader task on one real shared ring '
            '(two qb_rb_open handles on the same files), preemptible at every access ring code makes to the shared header/data words, '
            'every payload word copied, and every semaphore call; FIFO reference model checked per operation and at quiescence; '
            'non-trivial = at least one write and one read succeeded and the baton changed hands more than twice; distinct = distinct '
            'fingerprint of the (yield site, task switched to) sequence',
    'level_text': 'seeded search over interleavings at shared-access granularity (sequentially consistent), lengths, sizes, wrap positions, '
                  'with and without the semaphore, plus a publish-edge memory-order check; samples, does not enumerate',
    'level_note': 'interleavings are sequentially consistent (weak-memory reorderings are only covered by the publish-edge ordering check in the '
                  'tsan-instrumented variant); scheduling points come from compiler instrumentation of ringbuffer.c / ringbuffer_helper.c, '
                  'so accesses the compiler elides or merges are not separate points; real /dev/shm files and double mapping',
    'technique': 'deterministic simulation: seeded scheduler over real threads with one baton, preemption at every instrumented shared access, '
                 'EINTR fault injection on semaphore waits, FIFO reference model, ddmin replay',
    'design_ref': 'DESIGN.md 4/C01',
    'real': REAL_RING, 'stub': ['POSIX semaphore (value kept by the shim inside the real shared header)', 'thread scheduling', 'clock'],
    'assumptions': ['sequentially consistent interleavings', 'one writer and one reader, as the API requires'],
}

PROPS['C11'] = {
    'parts': [{'harness': 'ring_coarse', 'chunk': 400}],
    'quick_s': 30, 'thorough_s': 600,
    'level_quick': 'exploration', 'level_thorough': 'exploration',
    'rule': 'one evaluation = one seeded history on a fresh overwrite ring (writes of tiny to near-capacity chunks, single reads and '
            'full drains placed at seeded points between operations); the drained sequence must be a suffix of the written one, '
            'byte-identical, at least as long as the number of newest chunks that fit in S at 16 bytes overhead each; '
            'non-trivial = at least one write and one read-back; distinct = distinct (operation, argument, outcome) hash',
    'level_text': 'seeded exploration of overwrite-ring histories and dump instants against a suffix reference model on the real ring',
    'level_note': 'dump/read-back instants are between operations only (the property does not promise mid-operation dumps); trusts kernel tmpfs/mmap',
    'technique': 'deterministic simulation (seeded histories with the read-back/dump instant chosen by the scheduler, suffix reference model, ddmin replay)',
    'design_ref': 'DESIGN.md 4/C11',
    'real': REAL_RING, 'stub': ['none'],
    'assumptions': ['read-back happens between logger/writer operations, never inside one'],
}

NOT_APPLICABLE = {
    'C12': 'log routing is a pure function of one caller\'s configuration and call-site sequence: no schedule, clock, I/O outcome, peer or crash point for a simulator to control (DESIGN.md section 5)',
    'C13': 'log line formatting is a pure function of (format string, message, call-site fields, timestamp, limit): input generation alone would be fuzzing, not simulation (DESIGN.md section 5)',
    'C14': 'blackbox record encode/decode are pure functions of (format, arguments, buffer sizes); damage to stored records is covered as a storage fault under C15 (DESIGN.md section 5)',
    'C17': 'single-caller operation sequences on an in-memory map with synchronous notifiers: nothing nondeterministic to simulate (DESIGN.md section 5)',
    'C20': 'single-caller handle create/get/put/destroy sequences; the only nondeterminism is the random() tag, which the property treats as an implementation device (DESIGN.md section 5)',
}
# claimed in DESIGN.md but whose check is not built yet in this tree
PENDING = {k: 'check not built yet (designed in DESIGN.md section 4); will be claimed when its harness lands' for k in
           ['C01', 'C02', 'C03', 'C04', 'C05', 'C06', 'C08', 'C09', 'C10', 'C11', 'C15', 'C16', 'C18', 'C19']}
