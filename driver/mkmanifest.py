#!/usr/bin/env python3
"""Regenerates /verif/MANIFEST.json from driver/props.py (run after editing props.py)."""
import json, os, sys
HERE = os.path.dirname(os.path.abspath(__file__))
sys.path.insert(0, HERE)
from props import PROPS, HARNESSES, NOT_APPLICABLE, PENDING

checks = []
for pid in sorted(PROPS):
    P = PROPS[pid]
    checks.append({
        'property_id': pid,
        'quick_cmd': './check %s --tier quick' % pid,
        'thorough_cmd': './check %s --tier thorough' % pid,
        'evidence_file': 'evidence/%s.json' % pid,
        'replay_cmd_template': './check %s --replay {path}' % pid,
        'engine': 'simk',
        'level_claimed': {'category': P.get('level_thorough', P['level_quick']) if P.get('level_thorough') == P['level_quick'] else P['level_quick'],
                          'text': P['level_text'], 'design_ref': P.get('design_ref', 'DESIGN.md section 4')},
        'level_note': P['level_note'],
        'technique': P.get('technique', 'deterministic simulation with fault injection: seeded search over schedules and fault sequences'),
    })
na = [{'property_id': k, 'reason': v} for k, v in sorted(NOT_APPLICABLE.items())]
na += [{'property_id': k, 'reason': v} for k, v in sorted(PENDING.items()) if k not in PROPS]
m = {
    'version': 1,
    'setup_cmd': 'make -C /verif -j16',
    'hooks': {
        'guard': 'CLUSTERLABS_LIBQB_VERIF',
        'enable': 'checks compile /repo/lib/*.c themselves with -DCLUSTERLABS_LIBQB_VERIF -include /verif/simk/simk_rename.h (no hook code exists in /repo; every seam is compile-time redirection of libc calls and compiler instrumentation)',
        'baseline_off_cmd': 'make -C /repo check',
        'source_commits': [],
        'add_only': True,
    },
    'engines': [
        {'name': 'simk', 'path': 'simk/', 'serves_properties': sorted(PROPS),
         'kind_free_text': 'deterministic simulation kernel: seeded scheduler over real threads with one baton, virtual clock, libc seam (compile-time redirection), fault injection, recorder, replay; driver ./check does seeded search, gating, ddmin minimisation, evidence'},
    ] + [{'name': hn, 'path': HARNESSES[hn]['src'][0], 'serves_properties': sorted(p for p in PROPS if any(x['harness'] == hn for x in PROPS[p]['parts'])),
          'kind_free_text': 'simulation harness'} for hn in sorted(HARNESSES)],
    'checks': checks,
    'not_applicable': na,
    'notes': 'See DESIGN.md. Known findings: findings/known_findings.txt. Seeded breakages used to test the checks: seeded/.',
}
json.dump(m, open(os.path.join(HERE, '..', 'MANIFEST.json'), 'w'), indent=1)
print('MANIFEST.json: %d checks, %d not applicable' % (len(checks), len(na)))
