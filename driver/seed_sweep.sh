#!/bin/bash
# usage: seed_sweep.sh <first_seed> <last_seed> [ids...] -- quick tier of every check under other VERIF_SEED values (writes under /tmp/sweep-out only)
cd "$(dirname "$0")/.."
a=$1; b=$2; shift 2
ids=${@:-C01 C02 C03 C04 C05 C06 C07 C08 C09 C10 C11 C15 C16 C18 C19}
for s in $(seq $a $b); do for id in $ids; do
	rm -rf /tmp/sweep-out
	VERIF_SEED=$s VERIF_OUT=/tmp/sweep-out ./check $id --tier quick > /tmp/sweep-$id-$s.log 2>&1; rc=$?
	echo "SWEEP seed=$s $id exit=$rc $(grep -E "^$id quick" /tmp/sweep-$id-$s.log | cut -c1-150)"
	if [ $rc -ne 0 ]; then grep -E "VIOLATION|class=|HARNESS" /tmp/sweep-$id-$s.log | cut -c1-400; mkdir -p /tmp/sweep-keep; cp /tmp/sweep-out/replays/$id/violation-* /tmp/sweep-keep/ 2>/dev/null; fi
done; done
rm -rf /tmp/sweep-out
