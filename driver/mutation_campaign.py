#!/usr/bin/env python3
"""Mechanical mutation campaign: how many small syntactic changes to a libqb source file do the checks notice?

usage: mutation_campaign.py <file relative to /repo> <prop>[,<prop>...] [--n N] [--seed S] [--budget SECONDS]
                            [--slots K] [--lines A-B] [--out FILE]

For N pseudo-randomly chosen single-line mutants of <file> (relational operator flipped, && <-> ||, +1 <-> -1,
a statement deleted, a constant changed) each listed property's check is run against a scratch copy of /repo with
the mutant applied (never /repo itself).  A mutant is "killed" if any check exits 1 with a VIOLATION line,
"invalid" if it does not compile, "survived" otherwise.  Survivors are candidates for triage: equivalent, outside
every property, or a blind spot.  Writes one JSON line per mutant to --out (default /tmp/mutation-<file>.jsonl).
Nothing here is part of any verdict; it is a way of looking for blind spots.
"""
import os, re, sys, json, random, shutil, subprocess, threading, queue

REPO = '/repo'
VERIF = os.path.dirname(os.path.dirname(os.path.abspath(__file__)))


def candidates(path, lo, hi):
    src = open(path).read().split('\n')
    out = []
    in_comment = False
    for i, line in enumerate(src):
        ln = i + 1
        s = line.strip()
        if in_comment:
            if '*/' in s:
                in_comment = False
            continue
        if s.startswith('/*') and '*/' not in s:
            in_comment = True
            continue
        if ln < lo or ln > hi or not s or s.startswith(('#', '//', '*', '/*')):
            continue
        if re.search(r'qb_util_log|qb_util_perror|qb_enter|qb_leave|printf|assert\s*\(', s):
            continue
        code = line
        # relational operators
        for m in re.finditer(r'(?<![<>=!\-])(<=|>=|==|!=|<|>)(?![<>=])', code):
            op = m.group(1)
            if op in ('<', '>') and (code[max(0, m.start() - 1)] == '-' or '#include' in code or re.search(r'->', code[m.start() - 1:m.end() + 1])):
                continue
            for new in {'<': ['<='], '<=': ['<'], '>': ['>='], '>=': ['>'], '==': ['!='], '!=': ['==']}[op]:
                out.append((ln, 'rel %s -> %s' % (op, new), code[:m.start()] + new + code[m.end():]))
        for m in re.finditer(r'&&|\|\|', code):
            new = '||' if m.group(0) == '&&' else '&&'
            out.append((ln, 'logic %s -> %s' % (m.group(0), new), code[:m.start()] + new + code[m.end():]))
        for m in re.finditer(r'([+-]) 1\b', code):
            new = '- 1' if m.group(1) == '+' else '+ 1'
            out.append((ln, 'off-by-one %s 1 -> %s' % (m.group(1), new), code[:m.start()] + new + code[m.end():]))
        # delete a simple statement (a call or an assignment on one line)
        if re.match(r'^\t+[A-Za-z_(*][^;{}]*;\s*$', line) and not re.match(r'^\t+(return|goto|break|continue|int|char|struct|uint|size_t|ssize_t|void|static|const|unsigned|long)\b', line):
            out.append((ln, 'delete statement', line[:len(line) - len(line.lstrip())] + ';'))
        # return value
        m = re.match(r'^(\t+return )(-?[A-Za-z_0-9]+);\s*$', line)
        if m and m.group(2) not in ('NULL',):
            out.append((ln, 'return %s -> 0' % m.group(2) if m.group(2) != '0' else 'return 0 -> -1', m.group(1) + ('0' if m.group(2) != '0' else '-1') + ';'))
    return src, out


def run_mutant(slot, relfile, src, mut, props, budget, workers):
    ln, kind, newline = mut
    S = '/tmp/mutc-%d' % slot
    repo = os.path.join(S, 'repo')
    if not os.path.isdir(repo):
        os.makedirs(S, exist_ok=True)
        subprocess.run(['rsync', '-a', '--exclude', '.git', '--exclude', 'tests', '--exclude', 'docs', '--exclude', '*.o', '--exclude', '*.lo',
                        '--exclude', '.libs', REPO + '/', repo + '/'], check=True)
    lines = list(src)
    lines[ln - 1] = newline
    open(os.path.join(repo, relfile), 'w').write('\n'.join(lines))
    res = {'file': relfile, 'line': ln, 'kind': kind, 'old': src[ln - 1].strip(), 'new': newline.strip(), 'checks': {}}
    env = dict(os.environ, VERIF_REPO=repo, VERIF_BUILD=os.path.join(S, 'build'), VERIF_OUT=os.path.join(S, 'out'))
    verdict = 'survived'
    for p in props:
        shutil.rmtree(os.path.join(S, 'out'), ignore_errors=True)
        try:
            r = subprocess.run([os.path.join(VERIF, 'check'), p, '--budget', str(budget), '--workers', str(workers)], env=env, cwd=VERIF,
                               stdout=subprocess.PIPE, stderr=subprocess.STDOUT, text=True, timeout=budget * 6 + 300)
            outp = r.stdout
            rc = r.returncode
        except subprocess.TimeoutExpired:
            outp, rc = 'timeout', 99
        classes = sorted(set(re.findall(r'class=(\S+)', outp)))
        res['checks'][p] = {'exit': rc, 'classes': classes[:6]}
        if 'error:' in outp and rc not in (0, 1):
            verdict = 'invalid'
            break
        if rc == 1 and 'VIOLATION' in outp:
            verdict = 'killed'
            break
        if rc not in (0, 1):
            res['checks'][p]['tail'] = outp[-300:]
            if verdict == 'survived':
                verdict = 'problem'
    res['verdict'] = verdict
    # restore the file for the next mutant of this slot
    open(os.path.join(repo, relfile), 'w').write('\n'.join(src))
    return res


def main():
    a = sys.argv[1:]
    if len(a) < 2:
        print(__doc__)
        return 2
    relfile, props = a[0], a[1].split(',')
    n, seed, budget, slots, lo, hi, outf, rerun = 30, 1, 20, 4, 1, 10 ** 9, None, None
    i = 2
    while i < len(a):
        if a[i] == '--n': n = int(a[i + 1])
        elif a[i] == '--seed': seed = int(a[i + 1])
        elif a[i] == '--budget': budget = int(a[i + 1])
        elif a[i] == '--slots': slots = int(a[i + 1])
        elif a[i] == '--lines': lo, hi = [int(x) for x in a[i + 1].split('-')]
        elif a[i] == '--out': outf = a[i + 1]
        elif a[i] == '--rerun': rerun = a[i + 1]
        i += 2
    outf = outf or '/tmp/mutation-%s.jsonl' % relfile.replace('/', '_')
    src, cands = candidates(os.path.join(REPO, relfile), lo, hi)
    random.Random(seed).shuffle(cands)
    cands = cands[:n]
    if rerun:
        # only the mutants an earlier campaign file lists as survivors (same file, same line, same replacement text)
        want = set()
        for l in open(rerun):
            r = json.loads(l)
            if r.get('file') == relfile and r.get('verdict') == 'survived':
                want.add((r['line'], r['new']))
        _, allc = candidates(os.path.join(REPO, relfile), 1, 10 ** 9)
        cands = [c for c in allc if (c[0], c[2].strip()) in want]
    workers = max(2, 16 // slots)
    q = queue.Queue()
    for c in cands:
        q.put(c)
    lock = threading.Lock()
    tally = {}

    def worker(slot):
        while True:
            try:
                m = q.get_nowait()
            except queue.Empty:
                return
            r = run_mutant(slot, relfile, src, m, props, budget, workers)
            with lock:
                tally[r['verdict']] = tally.get(r['verdict'], 0) + 1
                open(outf, 'a').write(json.dumps(r) + '\n')
                print('%-8s %s:%d %s | %s  =>  %s' % (r['verdict'], relfile, r['line'], r['kind'], r['old'][:70], r['new'][:70]), flush=True)

    ts = [threading.Thread(target=worker, args=(k,)) for k in range(slots)]
    for t in ts: t.start()
    for t in ts: t.join()
    for k in range(slots):
        shutil.rmtree('/tmp/mutc-%d' % k, ignore_errors=True)
    print('SUMMARY %s %s: %s (of %d candidates in range)' % (relfile, ','.join(props), tally, len(cands)))
    return 0


if __name__ == '__main__':
    sys.exit(main())
