# Builds the simulator core (no dependency on /repo sources). The libqb objects
# and the harness binaries are (re)built by ./check from /repo's working tree.
CXX = clang++
CXXFLAGS = -std=c++17 -O1 -g -fsanitize=address -fno-omit-frame-pointer -Wall -Wextra -Wno-unused-parameter
B = build/simk

CORE = $(B)/simk.o $(B)/json.o $(B)/sched.o $(B)/shim.o $(B)/shim_io.o

all: $(B)/libsimk.a $(B)/rt_tsan.o $(B)/rt_sancov.o

$(B)/%.o: simk/%.cc $(wildcard simk/*.h)
	@mkdir -p $(B)
	$(CXX) $(CXXFLAGS) -c $< -o $@

$(B)/libsimk.a: $(CORE)
	rm -f $@
	ar rcs $@ $(CORE)

clean:
	rm -rf build

.PHONY: all clean
