// Ring buffer, operation-level histories: C07 (capacity contract, loss-free FIFO)
// and C11 part 1 (overwrite ring keeps the newest chunks).
// No tasks and no faults here: the plan order is the history. The simulator
// contributes seeded generation, the reference model, shrinking and replay.
#include "ring_common.h"
#include <errno.h>
#include <stdlib.h>
#include <unistd.h>

using namespace simk;
using namespace ringh;

enum { K_WRITE, K_ALLOC_COMMIT, K_READ, K_PEEK, K_RECLAIM, K_SPACE, K_DRAIN, K_N };
static const char *const op_names[K_N] = { "write", "alloc_commit", "read", "peek", "reclaim", "space", "drain" };

static int c_wrap_payload, c_wrap_header, c_refused, c_refused_tight, c_enobufs, c_len_unaligned, c_empty_read,
	c_commit_less, c_exact_fit, c_overwrote, c_over_s, c_marker_payload, c_peek_ok, c_reclaim_empty, c_reclaim_unpeeked;

static void init(const char *)
{
	c_wrap_payload = counter_id("probe", "payload_straddles_wrap");
	c_wrap_header = counter_id("probe", "header_straddles_wrap");
	c_refused = counter_id("probe", "write_refused");
	c_refused_tight = counter_id("probe", "refused_just_beyond_contract");
	c_enobufs = counter_id("probe", "read_enobufs");
	c_len_unaligned = counter_id("probe", "len_not_multiple_of_4");
	c_empty_read = counter_id("probe", "read_on_empty");
	c_exact_fit = counter_id("probe", "write_exactly_fills_contract");
	c_commit_less = counter_id("probe", "committed_less_than_reserved");
	c_overwrote = counter_id("probe", "overwrite_dropped_chunks");
	c_over_s = counter_id("probe", "len_above_S");
	c_marker_payload = counter_id("probe", "payload_made_of_marker_words");
	c_peek_ok = counter_id("probe", "peek_reclaim_pair");
	c_reclaim_empty = counter_id("probe", "reclaim_on_empty_ring");
	c_reclaim_unpeeked = counter_id("probe", "reclaim_without_peek");
}

static uint32_t pick_len(Rng &r, uint32_t S, uint64_t used_est)
{
	uint32_t k = (uint32_t)r.below(100);
	if (k < 22) { static const uint32_t sm[] = { 0, 1, 2, 3, 4, 5, 7, 8, 9, 12, 13 }; return sm[r.below(11)]; }
	if (k < 32) { uint32_t d = (uint32_t)r.below(21); return S > d ? S - d : 0; }
	if (k < 40) { int64_t v = (int64_t)S / 2 + r.range(-3, 3); return v < 0 ? 0 : (uint32_t)v; }
	if (k < 58) return (uint32_t)r.below((uint64_t)S + 1);
	if (k < 76) return (uint32_t)r.below(65);
	if (k < 81) return S + 1 + (uint32_t)r.below(8);
	// aim at the contract boundary: used + len + 16 == S (+-1)
	int64_t rem = (int64_t)S - (int64_t)used_est - 16 + r.range(-1, 1);
	if (rem < 0) rem = (int64_t)r.below(17);
	return (uint32_t)rem;
}

static void gen(const char *prop, RunSpec &spec)
{
	Rng r = stream(spec.seed, "data");
	Plan &p = spec.plan;
	bool c11 = !strcmp(prop, "C11");
	uint32_t S;
	uint32_t sk = (uint32_t)r.below(100);
	if (sk < 30) S = (uint32_t)(r.range(1, 4) * 4096 - r.range(0, 20));
	else if (sk < 60) S = (uint32_t)r.range(1, 300);
	else if (sk < 99) S = (uint32_t)r.range(1, 20000);
	else S = (uint32_t)(r.range(16, 130) * 4096 - r.range(0, 40));      // 64 KiB .. 512 KiB, around page multiples (one run in a hundred)
	if (c11 && S < 8) S += 8;
	p.set("size", S);
	p.set("sem", r.chance(1, 4));
	p.set("overwrite", c11 ? 1 : 0);
	int nops = r.chance(1, 2) ? (int)r.range(3, 30) : (int)r.range(30, c11 ? 300 : 200);
	// per-run op mix (swarm)
	uint32_t w_write = 20 + (uint32_t)r.below(60), w_alloc = (uint32_t)r.below(30), w_read = 10 + (uint32_t)r.below(60),
		 w_peek = (uint32_t)r.below(30), w_space = (uint32_t)r.below(10), w_drain = (uint32_t)r.below(4);
	if (c11) { w_write += 60; w_read = (uint32_t)r.below(20); w_peek = 0; w_drain = 1 + (uint32_t)r.below(4); }
	uint32_t tot = w_write + w_alloc + w_read + w_peek + w_space + w_drain;
	// estimated model (contract accounting) only to aim lengths and read capacities
	std::deque<uint32_t> est;
	uint64_t used_est = 0;
	bool peeked = false;
	// a first write+read of random length moves the indices to an arbitrary offset
	if (r.chance(2, 3)) {
		uint32_t l0 = (uint32_t)r.below((uint64_t)S + 1);
		p.add(0, K_WRITE, l0);
		p.add(0, K_READ, (int64_t)S + 64);
	}
	for (int n = 0; n < nops; n++) {
		uint32_t k = (uint32_t)r.below(tot);
		if (k < w_write + w_alloc) {
			uint32_t len = pick_len(r, S, used_est);
			if (c11 && r.chance(1, 3)) len = r.chance(1, 2) ? (uint32_t)r.below(40) : (S > 30 ? S - (uint32_t)r.below(30) : S);
			p.add(0, k < w_write ? K_WRITE : K_ALLOC_COMMIT, len);
			if (used_est + len + 16 <= S || (est.empty() && len <= S)) { est.push_back(len); used_est += len + 16; }
		} else if (k < w_write + w_alloc + w_read) {
			int64_t cap = (int64_t)S + 64;
			if (!est.empty()) {
				uint32_t c = (uint32_t)r.below(100);
				if (c < 15) cap = est.front();
				else if (c < 25) cap = est.front() ? est.front() - 1 : 0;
				else if (c < 30) cap = (int64_t)r.below((uint64_t)est.front() + 1);
			}
			p.add(0, K_READ, cap);
			if (!est.empty() && cap >= est.front()) { used_est -= est.front() + 16; est.pop_front(); peeked = false; }
		} else if (k < w_write + w_alloc + w_read + w_peek) {
			p.add(0, K_PEEK);
			if (!est.empty()) peeked = true;
			if (r.chance(3, 4)) {
				p.add(0, K_RECLAIM);
				if (peeked && !est.empty()) { used_est -= est.front() + 16; est.pop_front(); }
				peeked = false;
			}
		} else if (k < w_write + w_alloc + w_read + w_peek + w_space) {
			if (r.chance(1, 3)) {
				// a bare reclaim: discards the oldest chunk, or does nothing on an empty ring
				p.add(0, K_RECLAIM);
				if (!est.empty()) { used_est -= est.front() + 16; est.pop_front(); }
				peeked = false;
			} else
			p.add(0, K_SPACE);
		} else {
			p.add(0, K_DRAIN);
			est.clear(); used_est = 0; peeked = false;
		}
	}
	p.add(0, K_DRAIN);
}

static uint64_t kfit(const std::deque<Chunk> &W, uint32_t S)
{
	uint64_t sum = 0, k = 0;
	for (size_t n = W.size(); n-- > 0;) {
		sum += (uint64_t)W[n].len + 16;
		if (sum > S) break;
		k++;
	}
	return k;
}

static void run(const char *prop, const RunSpec &spec)
{
	const Plan &p = spec.plan;
	(void)prop;
	uint32_t S = (uint32_t)p.get("size", 100);
	bool sem = p.get("sem") != 0;
	bool overwrite = p.get("overwrite") != 0;
	uint32_t flags = QB_RB_FLAG_CREATE | (sem ? QB_RB_FLAG_SHARED_THREAD : QB_RB_FLAG_NO_SEMAPHORE) |
			 (overwrite ? QB_RB_FLAG_OVERWRITE : 0);
	std::string name = ring_name("coarse");
	qb_ringbuffer_t *rb = qb_rb_open(name.c_str(), S, flags, 0);
	if (!rb) { fail("open-failed", "qb_rb_open", "qb_rb_open(size=%u) failed errno=%d", S, errno); return; }
	long page = sysconf(_SC_PAGESIZE);
	uint64_t real = (((uint64_t)S + 13 + (uint64_t)page - 1) / (uint64_t)page) * (uint64_t)page;  // only for probes
	uint64_t woff = 0;   // probe bookkeeping: byte offset of the write position (mod real)

	std::deque<Chunk> M;          // unread chunks (normal: exactly; overwrite: candidates)
	uint64_t used = 0;            // sum(len + 16) over M (normal mode)
	bool peek_out = false;
	bool exact = false;           // overwrite mode: M is known to be exactly the retained set
	uint64_t nwrites = 0, nreads = 0, wserial = 0;
	std::vector<uint8_t> wbuf, rbuf;

	for (size_t i = 0; i < p.ops.size() && !failed(); i++) {
		const Op &op = p.ops[i];
		ev(100 + (uint32_t)op.kind, op.a[0], op.a[1]);
		switch (op.kind) {
		case K_WRITE:
		case K_ALLOC_COMMIT: {
			uint32_t len = (uint32_t)op.a[0];
			uint64_t serial = ++wserial;      // identity of the chunk: position among write operations
			if (len > (1u << 22)) len = 1u << 22;
			if (overwrite) {
				// chunks must stay identifiable from their bytes (see payload_byte): no empty chunks,
				// and tiny ones only while serials are unique modulo 256
				if (len == 0) len = 1;
				if (len < 4 && wserial >= 255) len = 4;
				// C11 speaks of writes "of at most the requested size": larger ones are outside it
				// (observed, not judged: a failing oversize write first discards every retained chunk)
				if (len > S) len = S;
			}
			bool must = overwrite ? (len <= S) : ((M.empty() && len <= S) || (used + len + 16 <= S));
			if (len % 4) count(c_len_unaligned);
			if (len > S) count(c_over_s);
			if (serial % 7 < 3 && len >= 12) count(c_marker_payload);
			if (!overwrite && used + len + 16 == S) count(c_exact_fit);
			ssize_t r;
			int err = 0;
			if (op.kind == K_WRITE) {
				wbuf.resize(len ? len : 1);
				fill_payload(wbuf.data(), serial, len);
				// hand the library an exact-size heap copy so out-of-bounds source reads are visible
				uint8_t *src = (uint8_t *)malloc(len ? len : 1);
				memcpy(src, wbuf.data(), len);
				r = qb_rb_chunk_write(rb, src, len);
				free(src);
			} else {
				errno = 0;
				void *d = qb_rb_chunk_alloc(rb, len);
				if (!d) { err = errno; r = -err; }
				else {
					// reserve len, commit what was really produced (the blackbox does exactly that); on a non-overwriting ring
					// the chunk then is the committed part and the rest of the reservation is free again
					uint32_t clen = (!overwrite && len > 0 && serial % 5 == 2) ? len - (uint32_t)(serial % ((uint64_t)len + 1)) : len;
					if (clen != len) count(c_commit_less);
					fill_payload((uint8_t *)d, serial, clen);
					int32_t cr = qb_rb_chunk_commit(rb, clen);
					r = cr < 0 ? cr : (ssize_t)len;
					if (cr >= 0) len = clen;
					if (cr >= 0) r = (ssize_t)len;
				}
			}
			ev(110, r);
			if (r == (ssize_t)len) {
				Chunk c; c.serial = serial; c.len = len;
				M.push_back(c);
				used += (uint64_t)len + 16;
				nwrites++;
				exact = false;
				uint64_t hdr = woff, pay = (woff + 8) % real, adv = 8 + (((uint64_t)len + 3) & ~3ULL);
				if (hdr + 8 > real) count(c_wrap_header);
				if (pay + len > real && len) count(c_wrap_payload);
				woff = (woff + adv) % real;
			} else if (r == -EAGAIN && !overwrite) {
				count(c_refused);
				if (used + len + 16 <= (uint64_t)S + 24) count(c_refused_tight);
				if (must) fail("refused-within-contract", "qb_rb_chunk_write",
					       "op %zu: write of %u bytes refused with %llu bytes (incl. 16/chunk) unread of S=%u (%zu chunks)",
					       i, len, (unsigned long long)used, S, M.size());
			} else if (r < 0) {
				if (must) fail(overwrite ? "overwrite-write-failed" : "refused-within-contract", "qb_rb_chunk_write",
					       "op %zu: write of %u bytes failed with %zd (S=%u, unread %llu)", i, len, r, S,
					       (unsigned long long)used);
				else if (!overwrite && r != -EAGAIN)
					fail("refusal-not-eagain", "qb_rb_chunk_write", "op %zu: refused write returned %zd, not -EAGAIN", i, r);
			} else {
				fail("write-bad-return", "qb_rb_chunk_write", "op %zu: write of %u returned %zd", i, len, r);
			}
			break; }
		case K_READ: {
			size_t cap = (size_t)op.a[0];
			if (cap > (1u << 23)) cap = 1u << 23;
			if (peek_out && sem) break;         // documented use: reclaim the peeked chunk first
			uint8_t *out = (uint8_t *)malloc(cap ? cap : 1);
			ssize_t r = qb_rb_chunk_read(rb, out, cap, 0);
			ev(111, r);
			if (M.empty()) {
				count(c_empty_read);
				if (r >= 0) fail("read-from-empty", "qb_rb_chunk_read", "op %zu: read returned %zd although nothing is unread", i, r);
			} else if (!overwrite) {
				Chunk h = M.front();
				if (cap < h.len) {
					count(c_enobufs);
					if (r != -ENOBUFS) fail("small-buffer-not-reported", "qb_rb_chunk_read",
								"op %zu: read(cap=%zu) of a %u byte chunk returned %zd, expected -ENOBUFS", i, cap, h.len, r);
				} else if (r != (ssize_t)h.len) {
					fail("read-wrong-length", "qb_rb_chunk_read", "op %zu: read returned %zd, head chunk #%llu has %u bytes",
					     i, r, (unsigned long long)h.serial, h.len);
				} else {
					long bad = check_payload(out, h.serial, h.len);
					if (bad >= 0) fail("read-wrong-bytes", "qb_rb_chunk_read", "op %zu: chunk #%llu len %u differs at byte %ld",
							   i, (unsigned long long)h.serial, h.len, bad);
					M.pop_front(); used -= (uint64_t)h.len + 16; nreads++; peek_out = false;
				}
			} else {
				// overwrite mode: the chunk must be one of the candidates; everything older was overwritten
				if (r < 0) {
					// -ENOBUFS is legitimate when cap is smaller than the retained head; otherwise newest lost
					if (r != -ENOBUFS) fail("newest-missing", "qb_rb_chunk_read", "op %zu: read returned %zd with %zu chunks written and unread", i, r, M.size());
				} else {
					uint64_t need = kfit(M, S); if (need < 1) need = 1;
					size_t pos = M.size();
					for (size_t n = 0; n < M.size(); n++)
						if (M[n].len == (uint32_t)r && check_payload(out, M[n].serial, M[n].len) < 0) { pos = n; break; }
					if (pos == M.size()) fail("read-wrong-bytes", "qb_rb_chunk_read", "op %zu: overwrite ring returned a %zd byte chunk that matches no unread write", i, r);
					else {
						uint64_t retained = M.size() - pos;
						if (exact && pos != 0) fail("order-gap", "qb_rb_chunk_read", "op %zu: chunk #%llu returned but #%llu was still retained", i,
									    (unsigned long long)M[pos].serial, (unsigned long long)M[0].serial);
						if (retained < need) fail("too-few-retained", "qb_rb_chunk_read",
									  "op %zu: oldest retained chunk is #%llu: %llu chunks kept, but the newest %llu fit in S=%u",
									  i, (unsigned long long)M[pos].serial, (unsigned long long)retained, (unsigned long long)need, S);
						if (pos) count(c_overwrote, pos);
						M.erase(M.begin(), M.begin() + (long)pos + 1);
						exact = true; nreads++;
					}
				}
			}
			free(out);
			break; }
		case K_PEEK: {
			if (overwrite) break;
			if (peek_out && sem) break;
			void *d = NULL;
			ssize_t r = qb_rb_chunk_peek(rb, &d, 0);
			ev(112, r);
			if (M.empty()) {
				if (r > 0) fail("read-from-empty", "qb_rb_chunk_peek", "op %zu: peek returned %zd although nothing is unread", i, r);
			} else {
				Chunk h = M.front();
				if (r != (ssize_t)h.len) fail("read-wrong-length", "qb_rb_chunk_peek", "op %zu: peek returned %zd, head chunk #%llu has %u bytes",
							      i, r, (unsigned long long)h.serial, h.len);
				else {
					long bad = h.len ? check_payload((const uint8_t *)d, h.serial, h.len) : -1;
					if (bad >= 0) fail("read-wrong-bytes", "qb_rb_chunk_peek", "op %zu: chunk #%llu len %u differs at byte %ld",
							   i, (unsigned long long)h.serial, h.len, bad);
					peek_out = true;
				}
			}
			break; }
		case K_RECLAIM:
			if (overwrite) break;
			if (M.empty()) {
				// nothing to reclaim: the call must leave the (empty) ring alone, whatever stale bytes lie at read_pt
				ssize_t u0 = qb_rb_space_used(rb);
				qb_rb_chunk_reclaim(rb);
				ssize_t u1 = qb_rb_space_used(rb);
				count(c_reclaim_empty);
				if (u0 != u1) fail("reclaim-on-empty-ring-changed-it", "qb_rb_chunk_reclaim", "op %zu: qb_rb_chunk_reclaim on an empty ring changed space_used from %zd to %zd", i, u0, u1);
				break;
			}
			if (!peek_out) count(c_reclaim_unpeeked);     // reclaim without a peek discards the oldest chunk
			qb_rb_chunk_reclaim(rb);
			used -= (uint64_t)M.front().len + 16;
			M.pop_front(); peek_out = false; nreads++;
			count(c_peek_ok);
			break;
		case K_SPACE: {
			ssize_t u = qb_rb_space_used(rb), f = qb_rb_space_free(rb);
			ev(113, u, f);
			if (overwrite) break;
			uint64_t pay = 0;
			for (size_t n = 0; n < M.size(); n++) pay += M[n].len;
			if (M.empty() && u != 0) fail("space-used-nonzero-when-empty", "qb_rb_space_used", "op %zu: space_used=%zd with nothing unread", i, u);
			if (u < 0 || (uint64_t)u < pay) fail("space-used-too-small", "qb_rb_space_used", "op %zu: space_used=%zd but %llu payload bytes unread", i, u, (unsigned long long)pay);
			if (f < 0) fail("space-free-negative", "qb_rb_space_free", "op %zu: space_free=%zd", i, f);
			break; }
		case K_DRAIN: {
			if (peek_out && !overwrite) {
				qb_rb_chunk_reclaim(rb);
				used -= (uint64_t)M.front().len + 16; M.pop_front(); peek_out = false; nreads++;
			}
			size_t cap = (size_t)S + 64;
			rbuf.resize(cap);
			for (int guard = 0; guard < 100000 && !failed(); guard++) {
				uint8_t *out = (uint8_t *)malloc(cap);
				ssize_t r = qb_rb_chunk_read(rb, out, cap, 0);
				if (r < 0) { free(out); break; }
				if (M.empty()) { fail("read-from-empty", "qb_rb_chunk_read", "op %zu: drain returned a %zd byte chunk although nothing is unread", i, r); free(out); break; }
				size_t pos = 0;
				if (overwrite) {
					uint64_t need = kfit(M, S); if (need < 1) need = 1;
					pos = M.size();
					for (size_t n = 0; n < M.size(); n++)
						if (M[n].len == (uint32_t)r && check_payload(out, M[n].serial, M[n].len) < 0) { pos = n; break; }
					if (pos == M.size()) { fail("read-wrong-bytes", "qb_rb_chunk_read", "op %zu: drained a %zd byte chunk that matches no unread write", i, r); free(out); break; }
					if (exact && pos != 0) fail("order-gap", "qb_rb_chunk_read", "op %zu: chunk #%llu returned but #%llu was still retained", i,
								    (unsigned long long)M[pos].serial, (unsigned long long)M[0].serial);
					if (M.size() - pos < need) fail("too-few-retained", "qb_rb_chunk_read",
									 "op %zu: oldest retained chunk is #%llu: %zu chunks kept, but the newest %llu fit in S=%u",
									 i, (unsigned long long)M[pos].serial, M.size() - pos, (unsigned long long)need, S);
					if (pos) count(c_overwrote, pos);
					exact = true;
				} else {
					Chunk h = M.front();
					if (r != (ssize_t)h.len) { fail("read-wrong-length", "qb_rb_chunk_read", "op %zu: drain returned %zd, head chunk #%llu has %u bytes", i, r, (unsigned long long)h.serial, h.len); free(out); break; }
					long bad = check_payload(out, h.serial, h.len);
					if (bad >= 0) { fail("read-wrong-bytes", "qb_rb_chunk_read", "op %zu: chunk #%llu len %u differs at byte %ld", i, (unsigned long long)h.serial, h.len, bad); free(out); break; }
				}
				for (size_t n = 0; n <= pos; n++) used -= (uint64_t)M[n].len + 16;
				M.erase(M.begin(), M.begin() + (long)pos + 1);
				nreads++;
				free(out);
			}
			if (!failed() && !M.empty())
				fail(overwrite ? "newest-missing" : "chunk-lost", "qb_rb_chunk_read",
				     "op %zu: ring reports empty but %zu written chunks (newest #%llu) were never returned", i, M.size(),
				     (unsigned long long)M.back().serial);
			used = 0;
			break; }
		}
	}
	qb_rb_close(rb);
	Result &res = result();
	res.steps = p.ops.size();
	set_nontrivial(nwrites >= 1 && nreads >= 1);
	// history fingerprint: the event hash already folds ops and their outcomes
	res.fingerprint = res.ev_hash;
}

static const Harness H = {
	"ring_coarse", op_names, K_N, NULL, 0, gen, run, init,
	"a run is one seeded history of ring operations on a fresh ring; non-trivial = at least one write succeeded and at "
	"least one chunk was read back; distinct = distinct hash of (operation, argument, outcome) sequence"
};

int main(int argc, char **argv) { return harness_main(argc, argv, &H); }
