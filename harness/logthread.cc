// C16: threaded logging. The APPLICATION task drives the logging API from a seeded plan (init, custom
// targets, filters, formats, CONF_THREADED / CONF_ENABLED / other reconfigurations, qb_log_thread_start,
// priority, log x n, bursts together with 0-2 extra PRODUCER tasks, close, fini, re-init ...); the LOGGING
// WORKER is the thread libqb itself creates with pthread_create (adopted by the simulator as a task).
// log_thread.c is compiled with trace-loads/stores: every load/store it executes outside the running
// thread's own stack is a preemption point, as is every lock / semaphore / thread call (libc seam).
// Reference model: per message and per target what the application is entitled to expect (synchronous
// delivery, delivery by the worker before qb_log_fini returns, or "either" where a control operation
// overtook a queued record), an upper bound on the backlog in bytes, and the "%d messages lost" reports
// the worker prints (captured by swapping the C library's stdout stream for a memory stream).
//
// Every run executes in a forked child of the worker process: log_thread.c keeps file-static state that
// qb_log_fini does not restore (see findings), so a run must never inherit state from its predecessor.
#include "../simk/sched.h"
#include "../simk/shim.h"
#include <elf.h>
#include <errno.h>
#include <fcntl.h>
#include <link.h>
#include <sched.h>
#include <signal.h>
#include <stdarg.h>
#include <stdio.h>
#include <stdlib.h>
#include <string.h>
#include <string>
#include <sys/mman.h>
#include <sys/prctl.h>
#include <sys/stat.h>
#include <sys/wait.h>
#include <syslog.h>
#include <unistd.h>
#include <vector>

#define SIMK_NO_RENAME 1
#include "../simk/simk_rename.h"
extern "C" {
#include <qb/qbdefs.h>
#include <qb/qblog.h>
#include "log_int.h"
}

#ifndef HARNESS_NAME
#define HARNESS_NAME "logthread"
#endif

using namespace simk;

enum { K_INIT, K_OPEN, K_FILTER, K_FORMAT, K_THREADED, K_ENABLE, K_CTL, K_THREAD_START, K_PRIO_SET, K_LOG, K_BURST,
       K_SLEEP, K_CLOSE, K_FINI, K_N };
static const char *const op_names[K_N] = { "init", "open", "filter", "format", "threaded", "enable", "ctl", "thread_start",
	"prio_set", "log", "burst", "sleep", "close", "fini" };

#define NT 3                 // harness targets (custom targets opened with qb_log_custom_open)
#define NP 3                 // producers: 0 = the application task, 1..2 = extra producer tasks
#define NSLOT 32             // QB_LOG_TARGET_MAX
#define BACKLOG_LIMIT 512000 // log_thread.c: "if (logt_memory_used > 512000)"
#define STEP_CAP 40000
#define MAX_MSG_PER_OP 260
#define MAX_TEXT 4400
#define MARK "@@P"

// avoid tokens (SIMK_AVOID, read by gen() only; the run reads the mask from the plan so that replays are self-contained)
enum { AV_A = 1, AV_B = 2, AV_C = 4, AV_D = 8, AV_E = 16, AV_F = 32, AV_G = 64 };
static const struct { const char *tok; int bit; } avoid_tokens[] = {
	{ "threaded-before-start", AV_A },   // threaded flag set but no logging thread: NULL lock dereference
	{ "reinit-after-thread", AV_B },     // qb_log_init after a cycle that started the thread: stale thread state
	{ "stale-threaded-flag", AV_C },     // a newly opened target inherits the threaded flag of the slot's previous user
	{ "concurrent-producers", AV_D },    // two threads inside the log call: the second message is discarded silently
	{ "close-while-busy", AV_E },        // qb_log_custom_close does not wait for the worker
	{ "fini-with-backlog", AV_F },       // the worker can exit on the stop request with records still queued
	{ "start-after-failed-start", AV_G },// a failed qb_log_thread_start leaves the stop flag set for the next worker
};

// message states per target
enum { ST_NONE = 0, ST_SYNC, ST_MUST, ST_OPT };

static int p_fini_queue, p_stop_window, p_backlog, p_ctl_in_cb, p_ctl_refused, p_thr_nothread_ctl, p_thr_nothread_log, p_cycle2, p_cycle3,
	p_close_busy, p_burst, p_burst_overlap, p_orphaned, p_late_route, p_stale_slot, p_sync, p_async, p_lock_wait_app,
	p_skipped_avoid, p_skipped_illegal, p_ctl_worker_locked, p_disable_with_queue, p_unthread_with_queue, p_stale_flag,
	p_start_twice, p_start_late, p_prio_queued, p_prio_live, p_fini_nothread, p_trunc, p_may_drop, p_handoff_in_log,
	p_worker_idle_at_fini, p_start_failed, p_start_after_failed, p_eintr_dummy, s_msgs, s_ops, s_maxq, s_lost, s_statics_found;

static uintptr_t A_active, A_should_exit, A_lockptr, A_list, A_mem, A_dropped, A_sem;

// ------------------------------------------------------------------ static state of log_thread.c (probes only)
struct Want { const char *name; uintptr_t *out; };
static int lookup_phdr(struct dl_phdr_info *info, size_t, void *data)
{
	*(uintptr_t *)data = (uintptr_t)info->dlpi_addr;
	return 1;      // first object = the executable
}
static int lookup_statics()
{
	Want w[] = { { "wthread_active", &A_active }, { "wthread_should_exit", &A_should_exit }, { "logt_wthread_lock", &A_lockptr },
		     { "logt_print_finished_records", &A_list }, { "logt_memory_used", &A_mem }, { "logt_dropped_messages", &A_dropped },
		     { "logt_print_finished", &A_sem } };
	const int nw = (int)(sizeof w / sizeof w[0]);
	int count[nw]; memset(count, 0, sizeof count);
	uintptr_t bias = 0;
	dl_iterate_phdr(lookup_phdr, &bias);
	int fd = open("/proc/self/exe", O_RDONLY);
	if (fd < 0) return 0;
	struct stat st;
	if (fstat(fd, &st) != 0) { close(fd); return 0; }
	void *m = mmap(NULL, (size_t)st.st_size, PROT_READ, MAP_PRIVATE, fd, 0);
	close(fd);
	if (m == MAP_FAILED) return 0;
	const char *b = (const char *)m;
	const Elf64_Ehdr *eh = (const Elf64_Ehdr *)b;
	int found = 0;
	if (memcmp(eh->e_ident, ELFMAG, SELFMAG) == 0 && eh->e_shoff && eh->e_shentsize == sizeof(Elf64_Shdr)) {
		const Elf64_Shdr *sh = (const Elf64_Shdr *)(b + eh->e_shoff);
		for (int i = 0; i < eh->e_shnum; i++) {
			if (sh[i].sh_type != SHT_SYMTAB) continue;
			const Elf64_Sym *sy = (const Elf64_Sym *)(b + sh[i].sh_offset);
			size_t n = sh[i].sh_size / sizeof(Elf64_Sym);
			const char *str = b + sh[sh[i].sh_link].sh_offset;
			for (size_t k = 0; k < n; k++) {
				if (ELF64_ST_TYPE(sy[k].st_info) != STT_OBJECT) continue;
				const char *nm = str + sy[k].st_name;
				for (int j = 0; j < nw; j++)
					if (!strcmp(nm, w[j].name)) { *w[j].out = bias + sy[k].st_value; count[j]++; }
			}
		}
		for (int j = 0; j < nw; j++) {
			if (count[j] == 1) found++;
			else *w[j].out = 0;      // missing or ambiguous: the probes that need it stay at zero
		}
	}
	munmap(m, (size_t)st.st_size);
	return found;
}

static void init(const char *)
{
	p_fini_queue = counter_id("probe", "fini_with_nonempty_queue");
	p_stop_window = counter_id("probe", "stop_requested_while_worker_between_sem_wait_and_lock");
	p_backlog = counter_id("probe", "backlog_limit_hit_messages_lost_reported");
	p_ctl_refused = counter_id("probe", "reconfiguration_refused_by_the_library");
	p_ctl_in_cb = counter_id("probe", "control_call_while_worker_inside_logger_callback");
	p_thr_nothread_ctl = counter_id("probe", "control_call_on_threaded_target_with_no_thread");
	p_thr_nothread_log = counter_id("probe", "log_call_to_threaded_target_with_no_thread");
	p_cycle2 = counter_id("probe", "second_init_cycle_reached");
	p_cycle3 = counter_id("probe", "third_init_cycle_reached");
	p_close_busy = counter_id("probe", "custom_close_of_threaded_target_with_records_queued");
	p_burst = counter_id("probe", "burst_with_extra_producers");
	p_burst_overlap = counter_id("probe", "two_producers_inside_log_call_at_once");
	p_orphaned = counter_id("probe", "queued_record_overtaken_by_control_op_not_delivered");
	p_late_route = counter_id("probe", "record_delivered_to_target_routed_after_the_log_call");
	p_stale_slot = counter_id("probe", "old_record_delivered_to_reopened_slot");
	p_sync = counter_id("probe", "synchronous_deliveries");
	p_async = counter_id("probe", "deliveries_by_worker");
	p_lock_wait_app = counter_id("probe", "control_call_started_while_worker_held_its_lock");
	p_skipped_avoid = counter_id("probe", "ops_skipped_by_avoid_rule");
	p_skipped_illegal = counter_id("probe", "ops_skipped_as_illegal");
	p_ctl_worker_locked = counter_id("probe", "pause_taken_on_threaded_target_with_thread_running");
	p_disable_with_queue = counter_id("probe", "disable_with_records_queued");
	p_unthread_with_queue = counter_id("probe", "threaded_off_with_records_queued");
	p_stale_flag = counter_id("probe", "open_reused_slot_whose_threaded_flag_was_left_set");
	p_start_twice = counter_id("probe", "thread_start_called_again_while_running");
	p_start_late = counter_id("probe", "thread_start_after_targets_already_threaded");
	p_prio_queued = counter_id("probe", "priority_set_before_thread_start");
	p_prio_live = counter_id("probe", "priority_set_on_running_thread");
	p_fini_nothread = counter_id("probe", "fini_without_thread");
	p_trunc = counter_id("probe", "message_longer_than_line_limit");
	p_may_drop = counter_id("probe", "log_call_with_backlog_bound_above_limit");
	p_handoff_in_log = counter_id("probe", "handoff_inside_log_call");
	p_worker_idle_at_fini = counter_id("probe", "fini_with_worker_idle");
	p_start_failed = counter_id("probe", "thread_start_failed_on_bad_priority");
	p_start_after_failed = counter_id("probe", "thread_started_after_an_earlier_failed_start");
	p_eintr_dummy = counter_id("fault", "eintr");
	s_msgs = counter_id("stat", "messages_logged");
	s_ops = counter_id("stat", "ops_executed");
	s_maxq = counter_id("stat", "sum_of_max_queue_depth");
	s_lost = counter_id("stat", "messages_lost_reported");
	s_statics_found = counter_id("stat", "runs_with_log_thread_statics_located");
	lookup_statics();
}

// ------------------------------------------------------------------ abstract state shared by generator and interpreter
struct TAbs { bool open, enabled, thr; int pos; };
struct Abs {
	bool inited = false;
	bool thr_live = false;       // a logging thread was started in this init cycle
	bool thr_ever = false;       // an earlier init cycle of this process started (and stopped) a logging thread
	int cycle = 0;
	bool prio_q = false, prio_q_valid = true;   // a priority is queued for the next qb_log_thread_start, and whether the kernel accepts it
	bool start_failed = false;                   // a qb_log_thread_start has failed (bad priority) in this process
	TAbs T[NT] = {};
	bool slot_used[NSLOT] = {};
	bool slot_thr[NSLOT] = {};   // conf[pos].threaded as the library sees it (never cleared by init / close)
	// the lock log_thread.c uses: 1 live; 0 never created; 2 destroyed by an earlier qb_log_fini (the library keeps the dangling
	// pointer and wthread_active, see finding 'reinit-after-thread'; as intended it would be the same as 0)
	int lock_state() const { return thr_live ? 1 : thr_ever ? 2 : 0; }
	int alloc_slot() const { for (int i = 4; i < NSLOT; i++) if (!slot_used[i]) return i; return -1; }
	void do_init() { inited = true; thr_live = false; cycle++; for (int t = 0; t < NT; t++) T[t] = TAbs(); memset(slot_used, 0, sizeof slot_used); }
	void do_fini() { inited = false; if (thr_live) thr_ever = true; thr_live = false; for (int t = 0; t < NT; t++) T[t].open = T[t].enabled = false; }
};

enum { ADM_RUN = 0, ADM_ILLEGAL, ADM_AVOID };

// may this operation be issued in abstract state `a`? (K_LOG / K_BURST routing hazards are judged per message at run time;
// `log_hits_thr` is the generator's estimate: some enabled target is threaded in the library's eyes)
static int admit(const Abs &a, const Op &op, int av, bool log_hits_thr)
{
	int t = (int)op.a[0];
	bool tv = t >= 0 && t < NT;
	switch (op.kind) {
	case K_INIT:
		if (a.inited) return ADM_ILLEGAL;
		if ((av & AV_B) && a.thr_ever) return ADM_AVOID;
		return ADM_RUN;
	case K_OPEN:
		if (!a.inited || !tv || a.T[t].open || a.alloc_slot() < 0) return ADM_ILLEGAL;
		return ADM_RUN;
	case K_FILTER: case K_FORMAT: case K_THREADED: case K_CLOSE:
		if (!a.inited || !tv || !a.T[t].open) return ADM_ILLEGAL;
		return ADM_RUN;
	case K_ENABLE: case K_CTL:
		if (!a.inited || !tv || !a.T[t].open) return ADM_ILLEGAL;
		if (a.slot_thr[a.T[t].pos] && a.lock_state() != 1) {
			if (av & AV_A) return ADM_AVOID;
			if ((av & AV_B) && a.lock_state() == 2) return ADM_AVOID;
		}
		return ADM_RUN;
	case K_THREAD_START:
		if (!a.inited) return ADM_ILLEGAL;
		if ((av & AV_G) && a.start_failed && !a.thr_live) return ADM_AVOID;
		return ADM_RUN;
	case K_PRIO_SET: case K_SLEEP:
		return ADM_RUN;
	case K_LOG: case K_BURST:
		if (!a.inited) return ADM_ILLEGAL;
		if (log_hits_thr && a.lock_state() != 1) {
			if (av & AV_A) return ADM_AVOID;
			if ((av & AV_B) && a.lock_state() == 2) return ADM_AVOID;
		}
		return ADM_RUN;
	case K_FINI:
		if (!a.inited) return ADM_ILLEGAL;
		return ADM_RUN;        // (in a stale cycle qb_log_fini itself uses the dangling lock: AV_B keeps such cycles from starting)
	}
	return ADM_ILLEGAL;
}

// ------------------------------------------------------------------ per-run state
struct Msg {
	int p; uint32_t serial; uint32_t len; uint32_t size_hi; int cyc;
	bool will_post, may_drop, burst, overlapped, bound_sub, worker_any;
	uint8_t st[NT]; int tgen[NT]; uint32_t epoch[NT]; uint8_t ndeliv[NT];
};
struct Tgt {
	bool open = false, enabled = false, thr = false;
	int pos = -1, gen = 0, maxlen = QB_LOG_MAX_LEN;
	uint32_t route_epoch = 0;
	int in_cb_w = 0, in_cb_s = 0;     // logger callback of this target in progress on the worker / on a logging task
	uint32_t last_worker[NP] = {}, last_sync[NP] = {};
	std::vector<uint32_t> must;      // indices of messages this target still has to receive
	int nclose_cb = 0;
};
struct St {
	const RunSpec *spec = NULL;
	Abs a;
	int av = 0;
	int nprod = 0, cb_yields = 0, cb_sleep_us = 0; bool use_format = false, serial_log = false;
	Tgt T[NT];
	int pos2t[NSLOT];
	std::vector<Msg> msgs;
	std::vector<uint32_t> by_p[NP];
	uint32_t sub_upto[NP] = {};
	int64_t bound_hi = 0;
	std::vector<uint32_t> inflight;
	int cur_msg[8];                  // message a task is logging right now (index by task id), -1 none
	int n_in_log = 0;
	bool fini_returned = false, in_fini = false, app_done = false, done = false;
	int cur_op = -1;
	int gen_ctr = 0;
	int first_dyn_task = 1;          // tasks with id >= this were created by libqb (the logging worker)
	// bursts
	uint32_t burst_gen = 0; int burst_n[NP] = {}; int burst_size = 0, burst_cs = 0; uint32_t burst_seen[NP] = {}; int burst_left = 0;
	int log_owner = -1;
	// lost reports
	FILE *ms = NULL; char *mbuf = NULL; size_t mlen = 0; size_t lost_off = 0; uint64_t lost_total = 0, lost_checked = 0;
	bool any_may_drop = false;
	// statistics
	uint64_t n_worker_deliv = 0, n_sync_deliv = 0, nlogged = 0;
	int64_t qdepth = 0, qmax = 0;
	// worker phase tracking (probes): 0 idle / waiting, 1 got the semaphore, 2 holds the lock
	int wphase = 0;
	int stop_guard = 0;
	uintptr_t anchor = 0;
};
static St *Gp;
#define G (*Gp)

static const uint8_t cs_prio[3] = { LOG_ERR, LOG_INFO, LOG_DEBUG };
static const char *const fmts[] = { "%b", "[%p] %b", "%n:%l %b", "%6p|%b", NULL, "%f %b" };
#define NFMT ((int)(sizeof fmts / sizeof fmts[0]))
static const char *const filter_texts[] = { "*", "lt_file.c", "other.c" };
static const uint8_t filter_prios[] = { LOG_ERR, LOG_INFO, LOG_DEBUG, LOG_TRACE };
static const int line_lens[] = { 64, 128, 300, 512, 1024, 2048, 4096 };

static inline bool is_worker_task(int id) { return id >= G.first_dyn_task; }

// ------------------------------------------------------------------ access-level front end
// log_thread.c is compiled with -fsanitize-coverage=trace-pc-guard,trace-loads,trace-stores; these are the callbacks.
// Every access that is not to the running thread's own stack is a preemption point. The site id is the position of the
// access in the code (relative to qb_log_thread_start), so that no address of data ever reaches the event log.
static void observe_access(uintptr_t a, int is_write)
{
	int me = cur_task();
	if (a == A_lockptr && !is_write && is_worker_task(me) && G.wphase == 0) G.wphase = 1;
	else if (a == A_should_exit) {
		if (!is_write && is_worker_task(me)) G.wphase = 2;
		else if (is_write && me == 0 && G.in_fini) {
			if (G.wphase == 1) count(p_stop_window);
			// avoid rule "fini-with-backlog": the application is not preempted between storing the stop flag and posting the
			// semaphore (qb_log_thread_stop), so the worker never tests "flag set and semaphore value 0" with records queued
			if ((G.av & AV_F) && G.stop_guard == 0) { no_preempt(1); G.stop_guard = 1; }
		}
	}
	if (G.stop_guard == 2 && me == 0) { no_preempt(-1); G.stop_guard = 0; }
}
static inline void acc(void *addr, uintptr_t pc, int is_write)
{
	if (!Gp || !in_task()) return;
	char probe;
	uintptr_t d = (uintptr_t)addr - (uintptr_t)&probe + (512u << 10);
	if (d < (1024u << 10)) return;            // own stack (and the thread's TLS block just above it)
	observe_access((uintptr_t)addr, is_write);
	yield(Y_ACCESS, 0x40000000u | ((uint32_t)is_write << 24) | (uint32_t)((pc - G.anchor) & 0xffffffu));
}
extern "C" {
void __sanitizer_cov_trace_pc_guard_init(uint32_t *start, uint32_t *stop)
{
	static uint32_t n;
	for (uint32_t *p = start; p < stop; p++) if (!*p) *p = ++n;
}
void __sanitizer_cov_trace_pc_guard(uint32_t *) {}
#define LS(n) \
	void __sanitizer_cov_load##n(void *a) { acc(a, (uintptr_t)__builtin_return_address(0), 0); } \
	void __sanitizer_cov_store##n(void *a) { acc(a, (uintptr_t)__builtin_return_address(0), 1); }
LS(1) LS(2) LS(4) LS(8) LS(16)
}

static void on_call(uint32_t site)
{
	if (!Gp) return;
	if (site == S_UNLOCK && is_worker_task(cur_task())) G.wphase = 0;
	if (site == S_SEM_POST && G.stop_guard == 1 && cur_task() == 0) G.stop_guard = 2;   // released at the application's next access
}

// ------------------------------------------------------------------ oracle
#define VFAIL(cls, site, ...) do { fail(cls, site, __VA_ARGS__); return; } while (0)

static inline char filler(uint32_t serial, uint32_t i) { return (char)('a' + (serial * 7 + i * 3) % 26); }

static void build_text(std::string &s, int p, uint32_t serial, uint32_t len)
{
	char h[48];
	int hl = snprintf(h, sizeof h, MARK "%dS%uL%u:", p, serial, len);
	s.assign(h, (size_t)hl);
	if (len < (uint32_t)hl) len = (uint32_t)hl;
	s.reserve(len);
	for (uint32_t i = (uint32_t)hl; i < len; i++) s.push_back(filler(serial, i));
}

// the backlog in bytes can never be above bound_hi: every record whose log call has started and which is not known to have
// been taken off the queue (a record is known to be off once it, or a later record of the same producer, reached a callback
// on the worker) - counted with its untruncated length
static void bound_sub_upto(int p, uint32_t serial)
{
	for (uint32_t s = G.sub_upto[p] + 1; s <= serial && s <= G.by_p[p].size(); s++) {
		Msg &m = G.msgs[G.by_p[p][s - 1]];
		if (m.will_post && !m.bound_sub) { G.bound_hi -= m.size_hi; m.bound_sub = true; G.qdepth--; }
	}
	if (serial > G.sub_upto[p]) G.sub_upto[p] = serial;
}

static void demote(int t, bool count_it)
{
	Tgt &T = G.T[t];
	for (size_t i = 0; i < T.must.size(); i++) {
		Msg &m = G.msgs[T.must[i]];
		if (m.st[t] == ST_MUST && m.tgen[t] == T.gen && m.ndeliv[t] == 0) m.st[t] = ST_OPT;
	}
	(void)count_it;
	T.must.clear();
}
static size_t pending_must(int t)
{
	Tgt &T = G.T[t];
	size_t n = 0;
	for (size_t i = 0; i < T.must.size(); i++) {
		Msg &m = G.msgs[T.must[i]];
		if (m.st[t] == ST_MUST && m.tgen[t] == T.gen && m.ndeliv[t] == 0) n++;
	}
	return n;
}

static void logger_cb(int32_t pos, struct qb_log_callsite *cs, struct timespec *ts, const char *msg)
{
	if (!Gp) return;
	int me = cur_task();
	bool via_worker = is_worker_task(me);
	int t = pos >= 0 && pos < NSLOT ? G.pos2t[pos] : -1;
	const char *text = msg;
	char *fbuf = NULL;
	// from here on the logger of this target is busy (qb_log_target_format below takes the format lock: a scheduling point)
	if (t >= 0) { if (via_worker) G.T[t].in_cb_w++; else G.T[t].in_cb_s++; }
	if (G.use_format && t >= 0) {
		fbuf = (char *)malloc(2 * QB_LOG_ABSOLUTE_MAX_LEN + 512);
		fbuf[0] = 0;
		qb_log_target_format(pos, cs, ts, msg, fbuf);
		text = fbuf;
	}
	const char *mk = strstr(text, MARK);
	int p = -1; unsigned serial = 0, len = 0; int consumed = 0;
	if (!mk || sscanf(mk, MARK "%dS%uL%u:%n", &p, &serial, &len, &consumed) < 3 || consumed == 0 ||
	    p < 0 || p >= NP || serial == 0 || serial > G.by_p[p].size()) {
		free(fbuf);
		VFAIL("garbled-message", "logger-callback", "target slot %d received text that carries no valid message header", pos);
	}
	Msg &m = G.msgs[G.by_p[p][serial - 1]];
	ev(300, pos, p, serial);
	// payload must be a prefix of what was logged
	{
		const char *body = mk + consumed;
		uint32_t hl = (uint32_t)consumed;
		for (uint32_t i = 0; body[i]; i++) {
			if (hl + i >= m.len || body[i] != filler(m.serial, hl + i)) {
				// the ellipsis option overwrites the last three characters of a truncated line
				if (body[i] == '.' ) continue;
				free(fbuf);
				VFAIL("garbled-message", "logger-callback", "message #%u of producer %d arrived with different text at offset %u", serial, p, hl + i);
			}
		}
	}
	free(fbuf);
	if (G.fini_returned || !G.a.inited)
		VFAIL("delivery-after-fini", "qb_log_fini", "message #%u of producer %d was written to slot %d after qb_log_fini had returned", serial, p, pos);
	if (m.cyc != G.a.cycle)
		VFAIL("delivery-after-fini", "qb_log_fini", "message #%u of producer %d, logged in init cycle %d, was written in cycle %d", serial, p, m.cyc, G.a.cycle);
	if (t < 0)
		VFAIL("delivery-to-closed-target", "qb_log_thread_log_write", "message #%u of producer %d was written to slot %d which is not an open custom target", serial, p, pos);
	Tgt &T = G.T[t];
	if (!T.enabled)
		VFAIL("delivery-to-disabled-target", via_worker ? "qb_log_thread_log_write" : "qb_log_real_va_",
		      "message #%u of producer %d was written to target %d (slot %d) after the call that disabled it had returned", serial, p, t, pos);
	if (via_worker) {
		count(p_async); G.n_worker_deliv++;
		bound_sub_upto(p, serial);
		m.worker_any = true;
	} else {
		count(p_sync); G.n_sync_deliv++;
		int cm = me >= 0 && me < 8 ? G.cur_msg[me] : -1;
		if (cm < 0 || &G.msgs[cm] != &m)
			VFAIL("unexpected-delivery", "qb_log_real_va_", "message #%u of producer %d was written synchronously by a task that is not logging it", serial, p);
	}
	bool current = m.tgen[t] == T.gen && m.st[t] != ST_NONE;
	if (!current) {
		// not routed to this target (generation) when it was logged: legitimate only if routing changed afterwards
		if (m.tgen[t] != T.gen && m.st[t] != ST_NONE) count(p_stale_slot);
		else if (T.route_epoch != m.epoch[t] || m.tgen[t] != T.gen) count(p_late_route);
		else VFAIL("unexpected-delivery", via_worker ? "qb_log_thread_log_write" : "qb_log_real_va_",
			   "message #%u of producer %d was written to target %d although it was not routed there when logged and nothing changed since", serial, p, t);
		if (m.tgen[t] != T.gen) { m.tgen[t] = T.gen; m.st[t] = ST_OPT; m.ndeliv[t] = 0; m.epoch[t] = T.route_epoch; }
		else m.st[t] = ST_OPT;
	} else if (m.st[t] == ST_SYNC && via_worker) {
		// already (to be) written synchronously; the worker writes it again only if the target was switched to threaded since
		if (T.route_epoch == m.epoch[t])
			VFAIL("duplicate-delivery", "qb_log_thread_log_write", "message #%u of producer %d, written synchronously to target %d, was written again by the logging thread", serial, p, t);
		count(p_late_route);
		goto order_check;
	} else if (m.st[t] == ST_MUST && !via_worker) {
		VFAIL("unexpected-delivery", "qb_log_real_va_", "message #%u of producer %d was written synchronously to target %d, which is in threaded mode with the thread running", serial, p, t);
	}
	if (m.ndeliv[t] >= 1)
		VFAIL("duplicate-delivery", via_worker ? "qb_log_thread_log_write" : "qb_log_real_va_",
		      "message #%u of producer %d was written to target %d twice", serial, p, t);
	m.ndeliv[t]++;
order_check:
	{
		uint32_t *last = via_worker ? T.last_worker : T.last_sync;
		if (serial <= last[p])
			VFAIL("out-of-order", via_worker ? "qb_logt_worker_thread" : "qb_log_real_va_",
			      "target %d received message #%u of producer %d after message #%u of the same producer", t, serial, p, last[p]);
		last[p] = serial;
	}
	// a slow logger: the control task may run while the worker is inside the callback (holding its lock)
	for (int i = 0; i < G.cb_yields; i++) yield(Y_OP, 7000 + (uint32_t)i);
	if (via_worker && G.cb_sleep_us > 0) {
		// slow device: the worker sleeps inside the callback, so every other task gets to run while it holds its lock
		struct timespec sl = { 0, (long)G.cb_sleep_us * 1000 };
		simk_nanosleep(&sl, NULL);
	}
	if (via_worker) T.in_cb_w--; else T.in_cb_s--;
}

static void close_cb(int32_t pos)
{
	if (!Gp) return;
	int t = pos >= 0 && pos < NSLOT ? G.pos2t[pos] : -1;
	ev(301, pos);
	if (t < 0) return;
	Tgt &T = G.T[t];
	T.nclose_cb++;
	if (T.in_cb_w > 0)
		VFAIL("close-during-write", G.cur_op == K_CLOSE ? "qb_log_custom_close" : G.cur_op == K_ENABLE ? "_log_target_disable" : G.cur_op == K_FINI ? "qb_log_fini" : "?",
		      "the close callback of target %d (slot %d) ran while the logging thread was inside the logger callback of the same target", t, pos);
}

// ------------------------------------------------------------------ lost reports
static void parse_lost()
{
	if (!G.ms) return;
	fflush(G.ms);
	while (G.lost_off < G.mlen) {
		const char *b = G.mbuf + G.lost_off;
		const char *nl = (const char *)memchr(b, '\n', G.mlen - G.lost_off);
		if (!nl) break;
		int n = 0; char tail[32];
		if (sscanf(b, "%d messages %31s", &n, tail) == 2 && !strcmp(tail, "lost") && n > 0) { G.lost_total += (uint64_t)n; count(s_lost, (uint64_t)n); }
		G.lost_off = (size_t)(nl - G.mbuf) + 1;
	}
}

// judged when qb_log_fini has returned (and once more at the end of the run)
static void check_cycle_end(const char *when)
{
	parse_lost();
	uint64_t missing_must = 0, maybe = 0;
	for (size_t i = 0; i < G.msgs.size(); i++) {
		Msg &m = G.msgs[i];
		if (m.cyc != G.a.cycle) continue;
		bool must_undelivered = false; int tt = -1;
		for (int t = 0; t < NT; t++)
			if (m.st[t] == ST_MUST && m.ndeliv[t] == 0) { must_undelivered = true; tt = t; }
			else if (m.st[t] == ST_OPT && m.ndeliv[t] == 0) count(p_orphaned);
		if (must_undelivered) {
			if (m.worker_any)
				VFAIL("message-skipped-target", "qb_log_thread_log_write", "%s: message #%u of producer %d was written by the logging thread but not to target %d, which was enabled, threaded and selected all along",
				      when, m.serial, m.p, tt);
			if (!m.may_drop)
				VFAIL("message-lost", (m.overlapped && !G.serial_log) ? "concurrent-log-call" : G.a.start_failed ? "qb_log_thread_start" : "qb_log_fini",
				      "%s: message #%u of producer %d (%u bytes) was never written to target %d; the backlog was at most %lld bytes when it was logged%s",
				      when, m.serial, m.p, m.len, tt, (long long)0 + (long long)m.size_hi, m.overlapped ? " (another thread was inside the log call)" : "");
			missing_must++;
		} else if (m.will_post && !m.worker_any) {
			maybe++;
		}
	}
	uint64_t lost = G.lost_total - G.lost_checked;
	G.lost_checked = G.lost_total;
	if (lost) count(p_backlog);
	if (lost && !G.any_may_drop)
		VFAIL("spurious-lost-report", "qb_logt_worker_thread", "%s: %llu messages reported lost although the backlog can never have exceeded %d bytes", when, (unsigned long long)lost, BACKLOG_LIMIT);
	if (lost < missing_must || lost > missing_must + maybe)
		VFAIL("lost-count-mismatch", "qb_logt_worker_thread", "%s: %llu messages reported lost, but %llu queued messages were never written (%llu more may have been dropped unobserved)",
		      when, (unsigned long long)lost, (unsigned long long)missing_must, (unsigned long long)maybe);
	G.any_may_drop = false;
	G.bound_hi = 0; G.qdepth = 0;
	for (size_t i = 0; i < G.msgs.size(); i++) G.msgs[i].bound_sub = true;
}

// ------------------------------------------------------------------ operations
static bool log_free(void *) { return G.log_owner < 0; }

static void log_one(int p, uint32_t size, int csidx, bool burst)
{
	int me = cur_task();
	if (csidx < 0) csidx = 0;
	csidx %= 6;
	uint8_t prio = cs_prio[csidx % 3];
	uint32_t lineno = 10 + (uint32_t)(csidx / 3);
	if (size > MAX_TEXT) size = MAX_TEXT;
	if (burst && G.serial_log) { while (G.log_owner >= 0) block_until(log_free, NULL, -1, 950); G.log_owner = me; }
	struct qb_log_callsite *cs = qb_log_callsite_get("lt_fn", "lt_file.c", "%s", prio, lineno, 0);
	if (!cs) {
		if (burst && G.serial_log) G.log_owner = -1;
		VFAIL("bad-return", "qb_log_callsite_get", "qb_log_callsite_get returned NULL although the logging system is initialised");
	}
	uint32_t targets = cs->targets;
	// routing as documented: a message reaches a target iff the target is enabled and selected by its filters at the time of the call
	bool hits_lib_thr = false, will_post = false;
	uint8_t st[NT]; size_t maxlen = 0;
	for (int t = 0; t < NT; t++) {
		Tgt &T = G.T[t];
		st[t] = ST_NONE;
		if (!T.open || !T.enabled || !(targets & (1u << T.pos))) continue;
		if ((size_t)T.maxlen > maxlen) maxlen = (size_t)T.maxlen;
		if (G.a.slot_thr[T.pos]) hits_lib_thr = true;
		if (T.thr) { st[t] = G.a.thr_live ? ST_MUST : ST_OPT; will_post = true; }
		else st[t] = ST_SYNC;
		if (G.a.slot_thr[T.pos]) will_post = true;
	}
	if (hits_lib_thr && G.a.lock_state() != 1) {
		if ((G.av & AV_A) || (G.a.lock_state() == 2 && (G.av & AV_B))) {
			if (burst && G.serial_log) G.log_owner = -1;
			count(p_skipped_avoid);
			return;
		}
		count(p_thr_nothread_log);
	}
	uint32_t serial = (uint32_t)G.by_p[p].size() + 1;
	std::string text;
	build_text(text, p, serial, size);
	Msg m; memset(&m, 0, sizeof m);
	m.p = p; m.serial = serial; m.len = (uint32_t)text.size(); m.cyc = G.a.cycle; m.burst = burst;
	m.size_hi = (uint32_t)(sizeof(struct qb_log_record) + text.size() + 1);
	m.will_post = will_post;
	for (int t = 0; t < NT; t++) { m.st[t] = st[t]; m.tgen[t] = G.T[t].gen; m.epoch[t] = G.T[t].route_epoch; }
	uint32_t mi = (uint32_t)G.msgs.size();
	G.msgs.push_back(m);
	G.by_p[p].push_back(mi);
	for (int t = 0; t < NT; t++) if (st[t] == ST_MUST) G.T[t].must.push_back(mi);
	if (maxlen && text.size() >= maxlen) count(p_trunc);
	if (will_post) {
		G.bound_hi += m.size_hi; G.qdepth++;
		if (G.qdepth > G.qmax) G.qmax = G.qdepth;
		G.inflight.push_back(mi);
		if (G.bound_hi > BACKLOG_LIMIT) {
			for (size_t i = 0; i < G.inflight.size(); i++) G.msgs[G.inflight[i]].may_drop = true;
			G.any_may_drop = true;
			count(p_may_drop);
		}
	} else {
		G.msgs[mi].bound_sub = true;
	}
	if (G.n_in_log > 0) {
		count(p_burst_overlap);
		G.msgs[mi].overlapped = true;
		for (int k = 0; k < 8; k++) if (G.cur_msg[k] >= 0) G.msgs[G.cur_msg[k]].overlapped = true;
	}
	G.n_in_log++;
	if (me >= 0 && me < 8) G.cur_msg[me] = (int)mi;
	G.nlogged++; count(s_msgs);
	ev(310, p, serial, (int64_t)text.size());
	uint64_t h0 = handoffs();
	qb_log_real_(cs, text.c_str());
	if (handoffs() != h0) count(p_handoff_in_log);
	ev(311, p, serial);
	if (me >= 0 && me < 8) G.cur_msg[me] = -1;
	G.n_in_log--;
	for (size_t i = 0; i < G.inflight.size(); i++) if (G.inflight[i] == mi) { G.inflight.erase(G.inflight.begin() + (long)i); break; }
	if (burst && G.serial_log) G.log_owner = -1;
	{
		Msg &mm = G.msgs[mi];
		if (G.n_in_log > 0) mm.overlapped = true;
		for (int t = 0; t < NT; t++)
			if (mm.st[t] == ST_SYNC && mm.tgen[t] == G.T[t].gen && mm.ndeliv[t] != 1)
				VFAIL("sync-delivery-missing", "qb_log_real_va_", "message #%u of producer %d was not written to target %d (enabled, selected, never switched to threaded mode by the application) by the time the log call returned",
				      serial, p, t);
	}
}

static int32_t ctl_i32(int pos, enum qb_log_conf c, int32_t v)
{
	return qb_log_ctl(pos, c, v);
}

static void note_control_start(int t, bool pauses)
{
	bool busy = false;
	for (int k = 0; k < NT; k++) if (G.T[k].in_cb_w > 0) busy = true;
	if (busy) count(p_ctl_in_cb);
	if (G.wphase == 2) count(p_lock_wait_app);
	if (t >= 0 && pauses && G.a.slot_thr[G.T[t].pos]) {
		if (G.a.lock_state() == 1) count(p_ctl_worker_locked);
		else count(p_thr_nothread_ctl);
	}
}

// a control call that pauses the logging thread (every qb_log_ctl except CONF_THREADED, on a target in threaded mode) returns
// with the worker outside its critical section: no logger callback can be in progress on the worker at that moment
static void check_pause_excluded(int t, const char *what)
{
	if (t < 0 || !G.a.slot_thr[G.T[t].pos] || G.a.lock_state() != 1) return;
	for (int k = 0; k < NT; k++)
		if (G.T[k].in_cb_w > 0)
			VFAIL("control-call-overlapped-write", what, "%s on threaded target %d returned while the logging thread was inside the logger callback of target %d: the call did not wait for the worker", what, t, k);
}

static void do_fini()
{
	if ((G.av & AV_F) && G.a.thr_live && !A_should_exit) {
		// avoid rule, fallback when the stop flag of log_thread.c could not be located (see observe_access for the precise
		// rule): let the worker drain its queue first (a sleeping application lets every other task run until it blocks)
		struct timespec ts = { 0, 1000 };
		for (int k = 0; k < 50 && simk_nanosleep(&ts, NULL) != 0; k++) {}
	}
	size_t q = 0;
	for (int t = 0; t < NT; t++) q += pending_must(t);
	if (q > 0) count(p_fini_queue);
	else if (G.a.thr_live) count(p_worker_idle_at_fini);
	if (!G.a.thr_live) count(p_fini_nothread);
	G.in_fini = true;
	ev(220);
	qb_log_fini();
	ev(221);
	G.in_fini = false;
	if (G.stop_guard) { no_preempt(-1); G.stop_guard = 0; }
	check_cycle_end("when qb_log_fini returned");
	if (failed()) return;
	G.fini_returned = true;
	G.a.do_fini();
	for (int t = 0; t < NT; t++) {
		Tgt &T = G.T[t];
		if (T.open) G.pos2t[T.pos] = -1;
		T.open = T.enabled = T.thr = false; T.must.clear();
	}
}

static void app_op(const Op &op)
{
	int t = (int)op.a[0];
	int adm = admit(G.a, op, G.av, false);
	if (adm == ADM_ILLEGAL) { count(p_skipped_illegal); return; }
	if (adm == ADM_AVOID) { count(p_skipped_avoid); return; }
	G.cur_op = op.kind;
	count(s_ops);
	yield(Y_OP, 100 + (uint32_t)op.kind);
	switch (op.kind) {
	case K_INIT: {
		uint8_t prio = (uint8_t)(op.a[0] < 0 ? 0 : op.a[0] > LOG_TRACE ? LOG_TRACE : op.a[0]);
		ev(200, prio);
		qb_log_init("c16", LOG_USER, prio);
		// syslog is the one target enabled by default; nothing may reach the real syslog
		int32_t rc = qb_log_ctl(QB_LOG_SYSLOG, QB_LOG_CONF_ENABLED, QB_FALSE);
		if (rc != 0) VFAIL("bad-return", "qb_log_ctl", "disabling syslog right after qb_log_init returned %d", rc);
		G.a.do_init();
		G.fini_returned = false;
		if (G.a.cycle == 2) count(p_cycle2);
		if (G.a.cycle == 3) count(p_cycle3);
		break; }
	case K_OPEN: {
		Tgt &T = G.T[t];
		ev(201, t);
		int32_t pos = qb_log_custom_open(logger_cb, close_cb, NULL, NULL);
		if (pos < QB_LOG_TARGET_DYNAMIC_START || pos >= NSLOT || G.pos2t[pos] >= 0)
			VFAIL("bad-return", "qb_log_custom_open", "qb_log_custom_open returned %d", pos);
		T = Tgt();
		T.open = true; T.pos = pos; T.gen = ++G.gen_ctr;
		T.route_epoch = (uint32_t)G.gen_ctr << 12;
		G.pos2t[pos] = t;
		G.a.T[t].open = true; G.a.T[t].enabled = false; G.a.T[t].thr = false; G.a.T[t].pos = pos; G.a.slot_used[pos] = true;
		if (G.a.slot_thr[pos]) count(p_stale_flag);
		if ((G.av & AV_C) || op.a[1]) {
			int32_t rc = ctl_i32(pos, QB_LOG_CONF_THREADED, QB_FALSE);
			if (rc != 0) VFAIL("bad-return", "qb_log_ctl", "CONF_THREADED off on a new target returned %d", rc);
			G.a.slot_thr[pos] = false;
		}
		break; }
	case K_FILTER: {
		Tgt &T = G.T[t];
		int conf = (int)(op.a[1] < 0 ? 0 : op.a[1] % 3);
		const char *text = filter_texts[(op.a[2] < 0 ? 0 : op.a[2]) % 3];
		uint8_t prio = filter_prios[(op.a[3] < 0 ? 0 : op.a[3]) % 4];
		note_control_start(t, false);
		if (conf != QB_LOG_FILTER_ADD) demote(t, true); else T.route_epoch++;
		ev(202, t, conf, prio);
		int32_t rc = qb_log_filter_ctl(T.pos, (enum qb_log_filter_conf)conf, QB_LOG_FILTER_FILE, text, prio);
		if (rc != 0 && rc != -EEXIST) VFAIL("bad-return", "qb_log_filter_ctl", "qb_log_filter_ctl(%d, %d, FILE, \"%s\", %d) returned %d", T.pos, conf, text, prio, rc);
		break; }
	case K_FORMAT: {
		Tgt &T = G.T[t];
		note_control_start(t, false);
		ev(203, t, op.a[1]);
		qb_log_format_set(T.pos, fmts[(op.a[1] < 0 ? 0 : op.a[1]) % NFMT]);
		break; }
	case K_THREADED: {
		Tgt &T = G.T[t];
		bool on = op.a[1] != 0;
		note_control_start(t, false);
		if (!on && T.thr) { if (pending_must(t)) count(p_unthread_with_queue); demote(t, true); }
		if (on) { T.route_epoch++; if (!G.a.thr_live) (void)0; }
		ev(204, t, on);
		int32_t rc = ctl_i32(T.pos, QB_LOG_CONF_THREADED, on ? QB_TRUE : QB_FALSE);
		if (rc != 0) VFAIL("bad-return", "qb_log_ctl", "CONF_THREADED returned %d", rc);
		T.thr = on; G.a.T[t].thr = on; G.a.slot_thr[T.pos] = on;
		if (!on && (G.av & AV_E) && G.a.lock_state() == 1) {
			// avoid rule: once the flag is cleared no control call waits for the worker any more, although it may still be inside
			// this target's logger: wait here, so that a later disable / close cannot overlap that write
			struct W { static bool idle(void *a) { return ((Tgt *)a)->in_cb_w == 0; } };
			while (!W::idle(&T)) block_until(W::idle, &T, -1, 953);
		}
		break; }
	case K_ENABLE: {
		Tgt &T = G.T[t];
		bool on = op.a[1] != 0;
		note_control_start(t, true);
		if (!on && T.enabled) { if (pending_must(t)) count(p_disable_with_queue); demote(t, true); }
		if (on) T.route_epoch++;
		ev(205, t, on);
		int before = T.nclose_cb;
		int32_t rc = ctl_i32(T.pos, QB_LOG_CONF_ENABLED, on ? QB_TRUE : QB_FALSE);
		if (rc != 0) VFAIL("bad-return", "qb_log_ctl", "CONF_ENABLED(%d) returned %d", (int)on, rc);
		if (!on && T.enabled && T.nclose_cb != before + 1)
			VFAIL("bad-return", "qb_log_ctl", "disabling target %d invoked its close callback %d times", t, T.nclose_cb - before);
		check_pause_excluded(t, "qb_log_ctl(CONF_ENABLED)");
		T.enabled = on; G.a.T[t].enabled = on;
		break; }
	case K_CTL: {
		Tgt &T = G.T[t];
		int which = (int)(op.a[1] < 0 ? 0 : op.a[1] % 12);
		int64_t v = op.a[2];
		note_control_start(t, true);
		ev(206, t, which, v);
		int32_t rc = 0, want = 0;
		switch (which) {
		case 0: { int len = line_lens[(v < 0 ? 0 : v) % 7]; rc = ctl_i32(T.pos, QB_LOG_CONF_MAX_LINE_LEN, len); if (rc == 0) T.maxlen = len; break; }
		case 1: rc = ctl_i32(T.pos, QB_LOG_CONF_ELLIPSIS, v & 1); break;
		case 2: rc = ctl_i32(T.pos, QB_LOG_CONF_EXTENDED, v & 1); break;
		case 3: rc = ctl_i32(T.pos, QB_LOG_CONF_FILE_SYNC, v & 1); break;
		case 4: rc = ctl_i32(T.pos, QB_LOG_CONF_PRIORITY_BUMP, (int32_t)(v % 3)); break;
		case 5: rc = ctl_i32(T.pos, QB_LOG_CONF_FACILITY, (v & 1) ? LOG_DAEMON : LOG_USER); break;
		case 6: rc = ctl_i32(T.pos, QB_LOG_CONF_STATE_GET, 0); want = T.enabled ? QB_LOG_STATE_ENABLED : QB_LOG_STATE_DISABLED; break;
		case 7: { qb_log_ctl2_arg_t a; memset(&a, 0, sizeof a); a.s = (v & 1) ? "c16-ident" : "other"; rc = qb_log_ctl2(T.pos, QB_LOG_CONF_IDENT, a); break; }
		case 8: rc = ctl_i32(T.pos, QB_LOG_CONF_SIZE, 4096); want = -ENOSYS; break;
		case 9: rc = ctl_i32(T.pos, QB_LOG_CONF_DEBUG, 1); want = -EINVAL; break;
		// reconfigurations the library must refuse (and leave everything as it was, the logging thread included)
		case 10: rc = ctl_i32(T.pos, QB_LOG_CONF_MAX_LINE_LEN, QB_LOG_ABSOLUTE_MAX_LEN + 1 + (int32_t)((v < 0 ? 0 : v) % 100000)); want = -EINVAL; count(p_ctl_refused); break;
		case 11: rc = ctl_i32(T.pos, QB_LOG_CONF_USE_JOURNAL, v & 1); want = rc == -EOPNOTSUPP ? -EOPNOTSUPP : -EINVAL; count(p_ctl_refused); break;
		}
		if (rc != want) VFAIL("bad-return", "qb_log_ctl", "qb_log_ctl variant %d on target %d returned %d, expected %d", which, t, rc, want);
		check_pause_excluded(t, "qb_log_ctl");
		break; }
	case K_THREAD_START: {
		note_control_start(-1, false);
		if (G.a.thr_live) count(p_start_twice);
		else for (int k = 0; k < NT; k++) if (G.T[k].open && G.T[k].thr) { count(p_start_late); break; }
		ev(207);
		int32_t rc = qb_log_thread_start();
		// (the simulated pthread_setschedparam accepts everything today; should it start refusing what the kernel refuses,
		// a queued out-of-range priority makes the start fail, which the library reports and cleans up after)
		bool may_fail = !G.a.thr_live && G.a.prio_q && !G.a.prio_q_valid;
		if (rc != 0 && !(may_fail && rc == -EINVAL)) VFAIL("bad-return", "qb_log_thread_start", "qb_log_thread_start returned %d", rc);
		if (rc == 0) {
			if (!G.a.thr_live) { G.a.thr_live = true; G.a.prio_q = false; if (G.a.start_failed) count(p_start_after_failed); }
		} else {
			count(p_start_failed);
			G.a.start_failed = true;
		}
		break; }
	case K_PRIO_SET: {
		static const int pol[] = { SCHED_OTHER, SCHED_RR, SCHED_FIFO };
		int policy = pol[(op.a[0] < 0 ? 0 : op.a[0]) % 3];
		int prio = (int)(op.a[1] < -1 ? -1 : op.a[1] > 99 ? 99 : op.a[1]);
		bool valid = policy == SCHED_OTHER || (prio >= 1 && prio <= 99);
		if (G.a.thr_live) count(p_prio_live); else count(p_prio_queued);
		ev(208, policy, prio);
		int32_t rc = qb_log_thread_priority_set(policy, prio);
		if (!G.a.thr_live) { G.a.prio_q = true; G.a.prio_q_valid = valid; }
		if (rc != 0 && !(rc == -EINVAL && !valid))
			VFAIL("bad-return", "qb_log_thread_priority_set", "qb_log_thread_priority_set(%d, %d) returned %d", policy, prio, rc);
		break; }
	case K_LOG: {
		int n = (int)(op.a[0] < 0 ? 0 : op.a[0] > MAX_MSG_PER_OP ? MAX_MSG_PER_OP : op.a[0]);
		uint32_t size = (uint32_t)(op.a[1] < 0 ? 0 : op.a[1] > MAX_TEXT ? MAX_TEXT : op.a[1]);
		for (int i = 0; i < n && !failed(); i++) log_one(0, size + (uint32_t)((i * 13) % 7), (int)op.a[2] + (op.a[3] ? i : 0), false);
		break; }
	case K_BURST: {
		// other threads may only log when threaded logging is in use for every target in use (qblog.h)
		bool legal = G.a.thr_live && G.nprod > 0;
		for (int k = 0; k < NT; k++) if (G.T[k].open && G.T[k].enabled && (!G.T[k].thr || !G.a.slot_thr[G.T[k].pos])) legal = false;
		int n0 = (int)(op.a[0] < 0 ? 0 : op.a[0] > 40 ? 40 : op.a[0]);
		uint32_t size = (uint32_t)(op.a[3] < 0 ? 0 : op.a[3] > MAX_TEXT ? MAX_TEXT : op.a[3]);
		if (legal) {
			count(p_burst);
			G.burst_left = 0;
			for (int p = 1; p <= G.nprod; p++) {
				int n = (int)(op.a[p] < 0 ? 0 : op.a[p] > 40 ? 40 : op.a[p]);
				G.burst_n[p] = n;
				if (n > 0) G.burst_left++;
			}
			G.burst_size = (int)size; G.burst_cs = (int)op.a[4];
			G.burst_gen++;
		}
		for (int i = 0; i < n0 && !failed(); i++) log_one(0, size, (int)op.a[4], legal);
		if (legal) {
			struct W { static bool done(void *) { return G.burst_left == 0; } };
			while (G.burst_left > 0) block_until(W::done, NULL, -1, 951);
		}
		break; }
	case K_SLEEP: {
		int64_t us = op.a[0] < 1 ? 1 : op.a[0] > 1000000 ? 1000000 : op.a[0];
		struct timespec ts = { (time_t)(us / 1000000), (long)(us % 1000000) * 1000 };
		simk_nanosleep(&ts, NULL);
		break; }
	case K_CLOSE: {
		Tgt &T = G.T[t];
		bool busy_risk = T.enabled && G.a.slot_thr[T.pos] && G.a.lock_state() == 1;
		if (busy_risk && pending_must(t)) count(p_close_busy);
		if ((G.av & AV_E) && G.a.lock_state() == 1) {
			// avoid rule: never close a target the worker may be writing to. Disabling a threaded target waits for the worker;
			// a target taken out of threaded mode a moment ago may still be inside its last write: wait for that to end
			if (busy_risk) {
				demote(t, true);
				int32_t rc = ctl_i32(T.pos, QB_LOG_CONF_ENABLED, QB_FALSE);
				if (rc != 0) VFAIL("bad-return", "qb_log_ctl", "CONF_ENABLED(0) returned %d", rc);
				T.enabled = false; G.a.T[t].enabled = false;
			}
			struct W { static bool idle(void *a) { Tgt *x = (Tgt *)a; return x->in_cb_w == 0; } };
			while (!W::idle(&T)) block_until(W::idle, &T, -1, 952);
		}
		note_control_start(t, false);
		demote(t, true);
		ev(209, t);
		int pos = T.pos;
		qb_log_custom_close(pos);
		T.open = T.enabled = T.thr = false;
		G.pos2t[pos] = -1;
		G.a.T[t].open = G.a.T[t].enabled = G.a.T[t].thr = false; G.a.slot_used[pos] = false;
		break; }
	case K_FINI:
		do_fini();
		break;
	}
	G.cur_op = -1;
}

static void app_main(void *)
{
	const Plan &p = G.spec->plan;
	for (size_t i = 0; i < p.ops.size() && !failed(); i++) {
		const Op &op = p.ops[i];
		if (op.task != 0 || op.kind < 0 || op.kind >= K_N) continue;
		app_op(op);
	}
	// the application always finalises the logging system before it exits
	if (!failed() && G.a.inited) { Op f; memset(&f, 0, sizeof f); f.kind = K_FINI; app_op(f); }
	G.done = true;
	G.app_done = true;
}

static void producer_main(void *arg)
{
	int p = (int)(long)arg;
	struct W { static bool ready(void *a) { int q = (int)(long)a; return G.done || G.burst_seen[q] != G.burst_gen; } };
	for (;;) {
		while (!W::ready(arg)) block_until(W::ready, arg, -1, 960 + (uint32_t)p);
		if (G.burst_seen[p] == G.burst_gen) break;       // done
		G.burst_seen[p] = G.burst_gen;
		int n = G.burst_n[p];
		if (n <= 0) continue;
		for (int i = 0; i < n && !failed(); i++) log_one(p, (uint32_t)G.burst_size + (uint32_t)p, G.burst_cs + p, true);
		G.burst_n[p] = 0;
		G.burst_left--;
	}
}

static void on_deadlock()
{
	// (do not call fail() here: the handler may run while a finished task hands the baton on)
	Result &r = result();
	if (r.verdict != V_OK) return;
	r.verdict = V_VIOLATION;
	snprintf(r.cls, sizeof r.cls, "deadlock");
	if (G.app_done) {
		snprintf(r.site, sizeof r.site, "thread-left-behind");
		snprintf(r.detail, sizeof r.detail, "the application finished (qb_log_fini returned) but a thread created by the library is still blocked for ever");
	} else {
		snprintf(r.site, sizeof r.site, "%s", G.cur_op >= 0 ? op_names[G.cur_op] : "application");
		snprintf(r.detail, sizeof r.detail, "every task is blocked with no deadline while the application is inside '%s' (%llu messages logged, %llu written by the worker)",
			 G.cur_op >= 0 ? op_names[G.cur_op] : "?", (unsigned long long)G.nlogged, (unsigned long long)G.n_worker_deliv);
	}
}

// ------------------------------------------------------------------ generation
static int avoid_mask_from_env()
{
	const char *e = getenv("SIMK_AVOID");
	int m = 0;
	if (!e) return 0;
	for (const char *p = e; *p;) {
		const char *c = strchr(p, ',');
		size_t l = c ? (size_t)(c - p) : strlen(p);
		for (size_t k = 0; k < sizeof avoid_tokens / sizeof avoid_tokens[0]; k++)
			if (strlen(avoid_tokens[k].tok) == l && !strncmp(p, avoid_tokens[k].tok, l)) m |= avoid_tokens[k].bit;
		if (!c) break;
		p = c + 1;
	}
	return m;
}

struct GenCtx {
	Rng r; Plan *p; Abs a; int av; int nprod;
	bool hits_thr() const { for (int t = 0; t < NT; t++) if (a.T[t].open && a.T[t].enabled && a.slot_thr[a.T[t].pos]) return true; return false; }
	// add the op if admissible and track the abstract state (assuming the call succeeds)
	bool emit(int kind, int64_t a0 = 0, int64_t a1 = 0, int64_t a2 = 0, int64_t a3 = 0, int64_t a4 = 0)
	{
		Op op; memset(&op, 0, sizeof op);
		op.task = 0; op.kind = kind; op.a[0] = a0; op.a[1] = a1; op.a[2] = a2; op.a[3] = a3; op.a[4] = a4;
		if (admit(a, op, av, hits_thr()) != ADM_RUN) return false;
		p->add(0, kind, a0, a1, a2, a3, a4);
		int t = (int)a0;
		switch (kind) {
		case K_INIT: a.do_init(); break;
		case K_OPEN: { int s = a.alloc_slot(); a.T[t].open = true; a.T[t].enabled = a.T[t].thr = false; a.T[t].pos = s; a.slot_used[s] = true;
			       if ((av & AV_C) || a1) a.slot_thr[s] = false; break; }
		case K_THREADED: a.T[t].thr = a1 != 0; a.slot_thr[a.T[t].pos] = a1 != 0; break;
		case K_ENABLE: a.T[t].enabled = a1 != 0; break;
		case K_THREAD_START:
			if (!a.thr_live) {
				if (a.prio_q && !a.prio_q_valid) a.start_failed = true;      // the start fails and cleans up
				else { a.thr_live = true; a.prio_q = false; }
			}
			break;
		case K_PRIO_SET:
			if (!a.thr_live) { a.prio_q = true; a.prio_q_valid = (a0 % 3 == 0) || (a1 >= 1 && a1 <= 99); }
			break;
		case K_CLOSE: a.slot_used[a.T[t].pos] = false; a.T[t].open = a.T[t].enabled = a.T[t].thr = false; break;
		case K_FINI: a.do_fini(); break;
		}
		return true;
	}
	uint32_t pick_size()
	{
		uint32_t k = (uint32_t)r.below(100);
		if (k < 55) return (uint32_t)r.range(1, 90);
		if (k < 80) return (uint32_t)r.range(90, 300);
		if (k < 92) return (uint32_t)r.range(480, 640);       // around the default 512 byte line limit
		return (uint32_t)r.range(640, 4300);
	}
	int open_target() { int c[NT], n = 0; for (int t = 0; t < NT; t++) if (a.T[t].open) c[n++] = t; return n ? c[r.below((uint64_t)n)] : -1; }
	int closed_target() { int c[NT], n = 0; for (int t = 0; t < NT; t++) if (!a.T[t].open) c[n++] = t; return n ? c[r.below((uint64_t)n)] : -1; }
};

static void gen(const char *, RunSpec &spec)
{
	GenCtx g;
	g.r = stream(spec.seed, "data");
	g.p = &spec.plan;
	g.av = avoid_mask_from_env();
	Rng &r = g.r;
	Plan &p = spec.plan;
	{ uint32_t k = (uint32_t)r.below(100); g.nprod = k < 55 ? 0 : k < 82 ? 1 : 2; }
	bool backlog = r.chance(8, 100);
	if (backlog && r.chance(2, 3)) g.nprod = 0;
	p.set("nprod", g.nprod);
	p.set("cb_yields", r.chance(1, 2) ? 0 : r.range(1, 3));
	p.set("use_format", r.chance(1, 2));
	p.set("cb_sleep_us", r.chance(1, 2) ? 0 : r.range(1, 200));
	p.set("rate_eintr", r.chance(1, 3) ? r.range(500, 6000) : 0);
	p.set("avoid", g.av);
	p.set("stall_pick", r.below(4));
	int ncycles;
	{ uint32_t k = (uint32_t)r.below(100); ncycles = backlog ? (k < 80 ? 1 : 2) : k < 62 ? 1 : k < 92 ? 2 : 3; }
	for (int cyc = 0; cyc < ncycles; cyc++) {
		if (!g.emit(K_INIT, r.chance(1, 2) ? LOG_EMERG : (int64_t)r.range(0, LOG_TRACE))) break;
		bool use_thread = r.chance(85, 100);
		// where qb_log_thread_start goes: 0 right after init, 1 somewhere in the set-up, 2 in the main phase
		int start_at; { uint32_t k = (uint32_t)r.below(100); start_at = k < 40 ? 0 : k < 80 ? 1 : 2; }
		if (g.av & AV_A) start_at = 0;
		if (backlog && cyc == 0) {
			use_thread = true;
			if (start_at == 2) start_at = 1;
		}
		bool started = false;
		if (use_thread && start_at == 0) { if (r.chance(1, 5)) g.emit(K_PRIO_SET, r.below(3), r.chance(1, 8) ? r.range(-1, 0) : r.range(1, 19)); g.emit(K_THREAD_START); started = true; }
		// ---- set-up: a shuffled interleaving of per-target configuration sequences
		int nt = backlog ? 1 : (int)r.range(1, NT);
		std::vector<Op> setup;
		for (int t = 0; t < nt; t++) {
			std::vector<Op> mine;
			Op o; memset(&o, 0, sizeof o);
			o.kind = K_FILTER; o.a[0] = t; o.a[1] = QB_LOG_FILTER_ADD; o.a[2] = r.chance(3, 4) ? 0 : 1; o.a[3] = (int64_t)r.range(r.chance(3, 4) ? 2 : 0, 3); mine.push_back(o);
			memset(&o, 0, sizeof o); o.kind = K_ENABLE; o.a[0] = t; o.a[1] = 1; mine.push_back(o);
			bool thr = use_thread ? r.chance(3, 4) : ((g.av & AV_A) ? false : r.chance(1, 6));
			if (backlog && cyc == 0) thr = true;
			if (thr) { memset(&o, 0, sizeof o); o.kind = K_THREADED; o.a[0] = t; o.a[1] = 1; mine.push_back(o); }
			if (r.chance(1, 2)) { memset(&o, 0, sizeof o); o.kind = K_FORMAT; o.a[0] = t; o.a[1] = (int64_t)r.below(NFMT); mine.push_back(o); }
			if ((backlog && cyc == 0) || r.chance(1, 5)) { memset(&o, 0, sizeof o); o.kind = K_CTL; o.a[0] = t; o.a[1] = 0; o.a[2] = (backlog && cyc == 0) ? 6 : (int64_t)r.below(7); mine.push_back(o); }
			if (r.chance(1, 6)) { memset(&o, 0, sizeof o); o.kind = K_CTL; o.a[0] = t; o.a[1] = (int64_t)r.range(1, 11); o.a[2] = (int64_t)r.below(4); mine.push_back(o); }
			for (size_t i = mine.size(); i > 1; i--) std::swap(mine[i - 1], mine[r.below(i)]);
			memset(&o, 0, sizeof o); o.kind = K_OPEN; o.a[0] = t; o.a[1] = r.chance(1, 8) ? 1 : 0;
			mine.insert(mine.begin(), o);
			// merge into the common sequence keeping each target's own order
			std::vector<Op> merged;
			size_t i = 0, j = 0;
			while (i < setup.size() || j < mine.size()) {
				bool take_mine = j < mine.size() && (i >= setup.size() || r.below(setup.size() - i + mine.size() - j) < mine.size() - j);
				if (take_mine) merged.push_back(mine[j++]); else merged.push_back(setup[i++]);
			}
			setup.swap(merged);
		}
		size_t start_idx = use_thread && start_at == 1 ? (size_t)r.below(setup.size() + 1) : (size_t)-1;
		size_t prio_idx = r.chance(1, 6) ? (size_t)r.below(setup.size() + 1) : (size_t)-1;
		size_t early_log = r.chance(1, 4) ? (size_t)r.below(setup.size() + 1) : (size_t)-1;
		for (size_t i = 0; i <= setup.size(); i++) {
			if (i == prio_idx) g.emit(K_PRIO_SET, r.below(3), r.chance(1, 8) ? r.range(-1, 0) : r.range(1, 19));
			if (i == start_idx) { g.emit(K_THREAD_START); started = true; }
			if (i == early_log) g.emit(K_LOG, r.range(1, 3), g.pick_size(), r.below(6), r.chance(1, 2));
			if (i < setup.size()) { const Op &o = setup[i]; g.emit(o.kind, o.a[0], o.a[1], o.a[2], o.a[3], o.a[4]); }
		}
		// ---- main phase
		if (backlog && cyc == 0) {
			if (!started) { g.emit(K_THREAD_START); started = true; }
			// now and then far beyond the limit, so that more than a limit's worth of messages is dropped, and logging
			// goes on after the worker has caught up (the accounting of dropped messages must not linger)
			bool far = r.chance(1, 4);
			int64_t n = far ? r.range(260, 420) : r.range(126, 190);
			if (r.chance(1, 3)) g.emit(K_LOG, r.range(1, 5), g.pick_size(), 1);
			g.emit(K_LOG, n, 4093, 1);
			if (far || r.chance(1, 2)) { g.emit(K_SLEEP, far ? r.range(400, 900) : r.range(1, 500)); g.emit(K_LOG, r.range(1, 20), r.chance(1, 2) ? 4093 : g.pick_size(), 1); }
			if (r.chance(1, 3)) g.emit(K_ENABLE, 0, 0);
			if (g.nprod && r.chance(1, 2)) g.emit(K_BURST, r.range(0, 6), r.range(1, 8), r.range(0, 8), 4093, 1);
		} else {
			int nmain = r.chance(1, 2) ? (int)r.range(2, 10) : (int)r.range(10, 28);
			for (int n = 0; n < nmain; n++) {
				uint32_t k = (uint32_t)r.below(100);
				if (use_thread && !started && start_at == 2 && r.chance(1, 4)) { g.emit(K_THREAD_START); started = true; continue; }
				if (k < 38) {
					int64_t cnt = r.chance(1, 10) ? r.range(6, 30) : r.range(1, 6);
					g.emit(K_LOG, cnt, g.pick_size(), r.below(6), r.chance(1, 3));
				} else if (k < 52) {
					if (g.nprod) g.emit(K_BURST, r.range(0, 5), r.range(1, 6), r.range(0, 6), g.pick_size(), r.below(6));
					else g.emit(K_LOG, r.range(1, 4), g.pick_size(), r.below(6), 0);
				} else if (k < 59) g.emit(K_SLEEP, r.chance(1, 2) ? r.range(1, 50) : r.range(50, 20000));
				else {
					int t = g.open_target();
					if (k < 66) { if (t >= 0) g.emit(K_ENABLE, t, !g.a.T[t].enabled || r.chance(1, 5)); }
					else if (k < 72) { if (t >= 0) g.emit(K_THREADED, t, !g.a.T[t].thr || r.chance(1, 5)); }
					else if (k < 78) { if (t >= 0) g.emit(K_CTL, t, r.below(12), r.below(8)); }
					else if (k < 83) { if (t >= 0) g.emit(K_FILTER, t, r.below(3), r.chance(3, 4) ? 0 : r.below(3), r.below(4)); }
					else if (k < 87) { if (t >= 0) g.emit(K_FORMAT, t, r.below(NFMT)); }
					else if (k < 91) { if (t >= 0) g.emit(K_CLOSE, t); }
					else if (k < 95) {
						int c = g.closed_target();
						if (c >= 0 && g.emit(K_OPEN, c, r.chance(1, 8))) {
							g.emit(K_FILTER, c, QB_LOG_FILTER_ADD, 0, r.range(1, 3));
							if (r.chance(1, 2) && (started || !(g.av & AV_A))) g.emit(K_THREADED, c, 1);
							g.emit(K_ENABLE, c, 1);
						}
					}
					else if (k < 98) { g.emit(K_THREAD_START); if (use_thread) started = true; }
					else g.emit(K_PRIO_SET, r.below(3), r.chance(1, 8) ? r.range(-1, 0) : r.range(1, 19));
				}
			}
			if (use_thread && !started) { g.emit(K_THREAD_START); started = true; if (r.chance(1, 2)) g.emit(K_LOG, r.range(1, 4), g.pick_size(), r.below(6), 0); }
		}
		if (r.chance(1, 6)) g.emit(K_SLEEP, r.range(1, 2000));
		if (cyc + 1 < ncycles || r.chance(9, 10)) g.emit(K_FINI);
	}
}

// ------------------------------------------------------------------ run
static void run_body(const RunSpec &spec)
{
	const Plan &p = spec.plan;
	St st;
	Gp = &st;
	G.spec = &spec;
	int64_t v = p.get("nprod", 0);
	G.nprod = v < 0 ? 0 : v > NP - 1 ? NP - 1 : (int)v;
	v = p.get("cb_yields", 0);
	G.cb_yields = v < 0 ? 0 : v > 8 ? 8 : (int)v;
	G.use_format = p.get("use_format", 0) != 0;
	v = p.get("cb_sleep_us", 0);
	G.cb_sleep_us = v < 0 ? 0 : v > 100000 ? 100000 : (int)v;
	G.av = (int)p.get("avoid", 0);
	G.serial_log = (G.av & AV_D) != 0;
	for (int i = 0; i < NSLOT; i++) G.pos2t[i] = -1;
	for (int i = 0; i < 8; i++) G.cur_msg[i] = -1;
	G.first_dyn_task = 1 + G.nprod;
	G.anchor = (uintptr_t)&qb_log_thread_start;
	if (A_should_exit && A_lockptr) count(s_statics_found);
	shim_reset();
	shim_cfg().rate_eintr = (uint32_t)p.get("rate_eintr", 0);
	shim_cfg().memcpy_stride_words = 1 << 20;
	shim_hooks().on_call = on_call;
	// expected number of scheduling points (horizon of the PCT / stall strategies)
	uint64_t expect = 40;
	for (size_t i = 0; i < p.ops.size(); i++) {
		const Op &op = p.ops[i];
		if (op.kind == K_LOG) expect += 55 * (uint64_t)(op.a[0] < 0 ? 0 : op.a[0] > MAX_MSG_PER_OP ? MAX_MSG_PER_OP : op.a[0]);
		else if (op.kind == K_BURST) for (int k = 0; k < 3; k++) expect += 55 * (uint64_t)(op.a[k] < 0 ? 0 : op.a[k] > 40 ? 40 : op.a[k]);
		else expect += 25;
	}
	SchedCfg sc;
	// task ids: 0 application, 1..nprod producers, then the logging worker(s) in order of creation
	sched_cfg_from_seed(spec.seed, 2 + G.nprod, expect, STEP_CAP, sc);
	if (sc.strategy == ST_STALL && p.get("stall_pick", 0) != 0) sc.stall_task = G.first_dyn_task;   // mostly it is the worker that stalls
	sched_begin(spec, sc);
	set_deadlock_handler(on_deadlock);
	FILE *real_stdout = stdout;
	G.ms = open_memstream(&G.mbuf, &G.mlen);
	if (G.ms) stdout = G.ms;
	task_create(1, app_main, NULL, "app");
	static const char *const pn[NP] = { "app", "prod1", "prod2" };
	for (int q = 1; q <= G.nprod; q++) task_create(1, producer_main, (void *)(long)q, pn[q]);
	sched_run();
	stdout = real_stdout;
	shim_hooks().on_call = NULL;
	bool torn = failed();
	sched_end();
	if (!torn) {
		if (G.a.inited) check_cycle_end("at the end of the run");
		else parse_lost();
		if (!failed() && G.lost_total != G.lost_checked)
			fail("spurious-lost-report", "qb_logt_worker_thread", "messages were reported lost after qb_log_fini had returned");
		if (G.ms) { fclose(G.ms); free(G.mbuf); }
	}
	count(s_maxq, (uint64_t)G.qmax);
	fp_mix(mix64(G.nlogged * 1000003ULL + G.n_worker_deliv * 10007ULL + G.n_sync_deliv));
	set_nontrivial(G.n_worker_deliv >= 2 && result().handoffs > 2);
	Gp = NULL;
}

static void run(const char *, const RunSpec &spec)
{
	if (getenv("SIMK_NOFORK")) { run_body(spec); return; }
	fflush(stdout); fflush(stderr);
	pid_t pid = fork();
	if (pid < 0) { perror("logthread: fork"); _exit(2); }
	if (pid == 0) {
		prctl(PR_SET_PDEATHSIG, SIGKILL);
		alarm(100);
		run_body(spec);
		_exit(0);
	}
	int status = 0;
	while (waitpid(pid, &status, 0) < 0 && errno == EINTR) {}
	if (WIFEXITED(status) && WEXITSTATUS(status) == 0) return;
	// the run crashed (sanitizer report, signal, watchdog): this process ends the same way so that the driver classifies it
	if (WIFEXITED(status)) _exit(WEXITSTATUS(status));
	signal(WTERMSIG(status), SIG_DFL);
	raise(WTERMSIG(status));
	_exit(3);
}

static const Harness H = {
	HARNESS_NAME, op_names, K_N, shim_fault_names, F_N, gen, run, init,
	"a run is one seeded (plan, schedule, fault) triple executed in a fresh process image: an application task issuing logging API calls "
	"(1-3 init..fini cycles over custom targets), 0-2 extra producer tasks, and the logging thread libqb creates itself; preemptible at "
	"every load/store log_thread.c makes outside the running thread's stack and at every lock/semaphore/thread call; per-message, "
	"per-target delivery model; non-trivial = at least two messages were written by the logging thread and the baton changed hands "
	"more than twice; distinct = distinct fingerprint of the (yield site, task switched to) sequence"
};

int main(int argc, char **argv) { return harness_main(argc, argv, &H); }
