// The IPC world (C02 .. C06): a server sim-process running the real qb_loop + qb_ipcs service, 1..3 client
// sim-processes running seeded scripts against the real qb_ipcc API, and a hostile sim-process speaking raw bytes,
// all inside one OS process. Yield points are the libc calls; the kernel objects (sockets, epoll, shm files) are
// real; time, scheduling, credentials, process identity/death and I/O faults belong to the simulator.
#define SIMK_NO_RENAME 1
#include "../simk/simk_rename.h"
#include "../simk/simk.h"
#include "../simk/sched.h"
#include "../simk/shim.h"
#include <map>
#include <set>
#include <deque>
#include <vector>
#include <string>
#include <algorithm>
#include <dirent.h>
#include <sys/stat.h>

extern "C" {
#include <qb/qbdefs.h>
#include <qb/qbloop.h>
#include <qb/qbipcc.h>
#include <qb/qbipcs.h>
#include <qb/qbipc_common.h>
#include "ipc_int.h"
#include "ringbuffer_int.h"
}

using namespace simk;

// ------------------------------------------------------------------ plan
enum {
	// client script (task 1..3)
	K_C_CONNECT, K_C_SEND, K_C_SENDV, K_C_SENDV_RECV, K_C_RECV, K_C_EVENT_RECV, K_C_POLLFD, K_C_SLEEP, K_C_DISCONNECT,
	K_C_DIE, K_C_FCMAX,
	// server application behaviour (task 0): a[0] = trigger kind, a[1] = connection ordinal (-1 any), a[2] = nth
	K_S_RATE, K_S_EVENT, K_S_DISCONNECT, K_S_REF, K_S_ITERATE, K_S_STATS, K_S_DESTROY, K_S_CLOSED_RETRY, K_S_ACCEPT_POLICY,
	K_S_DIE,
	// hostile peer (task 4)
	K_H_CONNECT, K_H_SEND_PREFIX, K_H_SEND_FIELD, K_H_SEND_GARBAGE, K_H_SLEEP, K_H_CLOSE, K_H_RAW_REQUEST, K_H_SHUTDOWN,
	K_N
};
static const char *const op_names[K_N] = {
	"c_connect", "c_send", "c_sendv", "c_sendv_recv", "c_recv", "c_event_recv", "c_pollfd", "c_sleep", "c_disconnect",
	"c_die", "c_fcmax",
	"s_rate", "s_event", "s_disconnect", "s_ref", "s_iterate", "s_stats", "s_destroy", "s_closed_retry", "s_accept_policy",
	"s_die",
	"h_connect", "h_send_prefix", "h_send_field", "h_send_garbage", "h_sleep", "h_close", "h_raw_request", "h_shutdown"
};
// server trigger kinds
enum { T_TICK = 0, T_ACCEPT = 1, T_CREATED = 2, T_MSG = 3, T_CLOSED = 4, T_DESTROYED = 5 };
// request directive flags
enum { DF_RET_NEG = 1, DF_DISCONNECT_SELF = 2, DF_HOLD_REF = 4, DF_SENDV_REPLY = 8, DF_SLOW = 16 };

static int which;   // 2..6

// what the hostile peer put on the raw request channel: real byte count and the length its header claimed
struct RawSent { uint32_t bytes; int32_t claimed; };
static std::deque<RawSent> g_raw_sent;
static qb_ipcc_connection_t *g_hostile_cc;

// qb_ipcc_connect() without the client library's lower bound on the message size it asks for: the handshake carries
// `small`, everything after it is libqb's own client code, so the peer is accepted and holds a working connection
static qb_ipcc_connection_t *hostile_connect_small(const char *name, size_t small)
{
	struct qb_ipcc_connection *c = (struct qb_ipcc_connection *)calloc(1, sizeof *c);
	struct qb_ipc_connection_response response;
	if (!c) return NULL;
	c->setup.max_msg_size = (uint32_t)small;
	snprintf(c->name, NAME_MAX, "%s", name);
	if (qb_ipcc_us_setup_connect(c, &response) < 0) { free(c); return NULL; }
	qb_ipc_us_ready(&c->setup, NULL, -1, POLLIN);
	if (qb_ipcc_setup_connect_continue(c, &response) != 0) { if (c->setup.u.us.sock >= 0) qb_ipcc_us_sock_close(c->setup.u.us.sock); free(c); return NULL; }
	c->response.type = c->request.type = c->event.type = c->setup.type = (enum qb_ipc_type)response.connection_type;
	c->response.max_msg_size = c->request.max_msg_size = c->event.max_msg_size = response.max_msg_size;
	c->receive_buf = (struct qb_ipc_request_header *)calloc(1, 65536 + (size_t)response.max_msg_size);       // (the client's own buffer is not under test)
	c->fc_enable_max = 1;
	int32_t res = -EINVAL;
	if (c->receive_buf) {
		if (c->request.type == QB_IPC_SHM) res = qb_ipcc_shm_connect(c, &response);
		else if (c->request.type == QB_IPC_SOCKET) res = qb_ipcc_us_connect(c, &response);
	}
	if (res != 0) { if (c->setup.u.us.sock >= 0) qb_ipcc_us_sock_close(c->setup.u.us.sock); free(c->receive_buf); free(c); return NULL; }
	c->is_connected = QB_TRUE;
	return c;
}

#define REQ_HDR ((int)sizeof(struct qb_ipc_request_header))
#define RES_HDR ((int)sizeof(struct qb_ipc_response_header))
#define DIR_MAGIC 0x51424456u

struct Directive { uint32_t magic; uint32_t conn; uint64_t serial; int32_t reply_len, nevents, evlen, flags; };

struct Msg {
	uint64_t serial; uint32_t len; int dir;     // dir 0 request, 1 response, 2 event
	int32_t reply_len, nevents, evlen, flags;
	int maybe;                                  // the sender cannot know whether it was queued (send+receive call failed in its receive half)
};

static uint8_t keyed(uint32_t conn, int dir, uint64_t serial, uint32_t off)
{
	uint64_t h = mix64(((uint64_t)conn << 40) ^ ((uint64_t)dir << 36) ^ (serial << 8) ^ (off >> 3));
	return (uint8_t)(h >> (8 * (off & 7)));
}
static void build_msg(uint32_t conn, const Msg &m, std::vector<uint8_t> &out)
{
	out.assign(m.len, 0);
	for (uint32_t i = 0; i < m.len; i++) out[i] = keyed(conn, m.dir, m.serial, i);
	if (m.dir == 0) {
		struct qb_ipc_request_header h; memset(&h, 0, sizeof h);
		h.id = QB_IPC_MSG_USER_START + 1 + (int32_t)(m.serial % 1000);
		h.size = (int32_t)m.len;
		if (m.len >= (uint32_t)REQ_HDR) memcpy(out.data(), &h, sizeof h);
		if (m.len >= (uint32_t)REQ_HDR + sizeof(Directive)) {
			Directive d; d.magic = DIR_MAGIC; d.conn = conn; d.serial = m.serial;
			d.reply_len = m.reply_len; d.nevents = m.nevents; d.evlen = m.evlen; d.flags = m.flags;
			memcpy(out.data() + REQ_HDR, &d, sizeof d);
		}
	} else {
		struct qb_ipc_response_header h; memset(&h, 0, sizeof h);
		h.id = 1000 + m.dir; h.size = (int32_t)m.len; h.error = 0;
		if (m.len >= (uint32_t)RES_HDR) memcpy(out.data(), &h, sizeof h);
	}
}

// ------------------------------------------------------------------ model
struct Conn {
	int id = 0;                     // ordinal of the accept callback
	int client = -1;                // client index (by peer pid), -1 hostile/unknown
	qb_ipcs_connection_t *sc = NULL;
	qb_ipcc_connection_t *cc = NULL;
	bool accepted_cb = false, accept_ok = false, created = false, closed_done = false, destroyed = false;
	int closed_calls = 0, closed_retries_left = 0, closed_retry_salt = 0;
	bool in_created_cb = false, disc_in_created = false;
	int app_refs = 0;
	uint32_t max_msg = 0;
	std::deque<Msg> req, resp, evq;         // accepted by the sender's call, not yet handed to the receiver
	bool fl_req = false; Msg fl_req_m; bool fl_req_taken = false;     // client send in progress
	bool fl_out = false; Msg fl_out_m; bool fl_out_taken = false;     // server response/event send in progress
	uint64_t req_serial = 0, resp_serial = 0, ev_serial = 0;
	uint64_t n_req_delivered = 0, n_resp_delivered = 0, n_ev_delivered = 0;
	bool client_gone = false;               // client disconnected, died, or saw a disconnect error
	int64_t client_closed_tick = -1;        // server tick count when the client's end was really closed (disconnect returned / process died)
	int gone_ticks = 0;                     // server ticks since then during which nothing excused the server from dropping the connection
	bool server_gone = false;
	int fc = 0; uint64_t fc_changes = 0;
	bool fc_changing = false;
	bool server_dropping = false;
	bool in_msg = false;                // msg_process for this connection is running (its request is not reclaimed yet)       // the application has asked the library to disconnect this connection
	int64_t defer_since_poll = -1;      // server loop iteration at which "events unread, descriptor not readable, notifications owed" was first seen (-1: not in that state)     // the server is inside qb_ipcs_request_rate_limit(): either level may be in force
	unsigned auth_uid = 0, auth_gid = 0, auth_mode = 0600; bool dir_uid_any = false, dir_gid_any = false;
	std::string dir;                        // /dev/shm/qb-...-XXXXXX
	int refused = 0;
};

struct ClientSt {
	int idx = 0, spid = 0; unsigned uid = 0, gid = 0;
	qb_ipcc_connection_t *cc = NULL; Conn *conn = NULL;
	bool dead = false, done = false, script_done = false;
	uint32_t max_req = 0;
	int task = -1;
	uint32_t fcmax = 1;
	bool saw_disconnect = false;
	int64_t disconnect_seen_at = -1;
	// connection directories of earlier connections this client left while the server was alive and which the server had
	// not yet removed (it may keep a connection, and its files, for as long as the application holds a reference): when
	// the server dies later nobody is left to remove them, and the disconnect of a later connection does not concern them
	std::set<std::string> left_dirs;
};

struct Trig { int kind; int conn; int64_t nth; size_t op; };

struct St {
	const RunSpec *spec = NULL;
	int transport = 0;
	std::string svc_name;
	qb_loop_t *loop = NULL;
	qb_ipcs_service_t *svc = NULL;
	bool hostile_done = false, hostile_task = false;
	uint64_t server_polls = 0;          // epoll_wait calls of the server's loop (= loop iterations)
	bool svc_destroyed = false, server_dead = false, server_started = false, server_finished = false, server_will_die = false;
	int64_t server_death_ns = -1;     // virtual time at which the server process died
	int server_spid = 0, hostile_spid = 0;
	std::deque<Conn> conns;                 // stable addresses
	std::map<qb_ipcs_connection_t *, Conn *> by_sc;
	ClientSt cl[3];
	int nclients = 0;
	std::vector<Trig> trigs;
	int64_t ticks = 0;
	int64_t msgs_seen = 0;
	std::map<int, int64_t> trig_count;      // (kind<<8 | conn) -> occurrences
	int server_fd_baseline = -1;
	std::set<std::string> ledger_paths;     // everything the server created under /dev/shm
	std::vector<std::string> ledger_order;  // the same in order of creation (the names carry a random suffix: never let their sort order decide anything)
	bool all_clients_done = false;
	int64_t shutdown_tick = -1;
	int accept_policy[3] = { 0, 0, 0 };      // errno to refuse with, per client (0 accept)
	int plant[3] = { 0, 0, 0 }, plantf[3] = { 0, 0, 0 };   // C05: a second process of the peer plants a file in the connection directory
	std::set<std::string> planted; std::vector<std::string> victims;
	int auth_set[3] = { 0, 0, 0 }; unsigned auth_uid[3], auth_gid[3], auth_mode[3];
	bool faults_off = false, rate_reset = false;
	uint64_t n_msgs_ok = 0;
	int hostile_fd = -1;
	std::vector<std::pair<qb_ipcs_connection_t *, int> > held_refs;   // (connection, ticks until unref)
};
static St *Gp;
#define G (*Gp)

static int p_stats_cleared, p_slow_cb, p_req_storm, p_req_full, p_notify_deferred, p_fc_toggled, p_max_size_msg, p_backoff, p_early_req, p_early_out, p_emsgsize,
	p_send_eagain, p_disc_in_msg, p_ref_outlives, p_closed_retry, p_destroy_alive, p_teardown_kill_armed, p_req_rechecked, p_hostile_shutdown, p_hostile_refused, p_hostile_raw, p_list_walk, p_client_died, p_server_died,
	p_refused, p_auth_set, p_pollin_checked, p_sendv_recv, p_event_delivered, p_resp_delivered, p_req_delivered, p_kill_fired,
	p_hostile_conn, p_drain_ok, p_deferred_window, p_owner_checked, p_client_cleanup_checked, p_planted;
static bool g_avoid_deferred;

extern "C" int use_filesystem_sockets(void);

static void init(const char *prop)
{
	which = atoi(prop + 1);
	// one-time lazy initialisations inside libqb must not happen inside a run (they would make the first run of a
	// process differ from every later one)
	(void)use_filesystem_sockets();
	p_req_full = counter_id("probe", "request_refused_EAGAIN");
	p_notify_deferred = counter_id("probe", "event_send_EAGAIN");
	p_fc_toggled = counter_id("probe", "flow_control_toggled");
	p_max_size_msg = counter_id("probe", "message_of_exactly_max_size");
	p_backoff = counter_id("probe", "msg_process_returned_negative");
	p_slow_cb = counter_id("probe", "msg_process_took_30ms");
	p_stats_cleared = counter_id("probe", "statistics_read_and_cleared");
	p_req_storm = counter_id("probe", "more_than_50_requests_queued_at_once");
	p_early_req = counter_id("probe", "request_dispatched_before_send_returned");
	p_early_out = counter_id("probe", "response_or_event_read_before_send_returned");
	p_emsgsize = counter_id("probe", "EMSGSIZE_returned");
	p_send_eagain = counter_id("probe", "send_refused_by_flow_control");
	p_disc_in_msg = counter_id("probe", "disconnect_inside_msg_process");
	p_ref_outlives = counter_id("probe", "app_reference_outlives_peer");
	p_closed_retry = counter_id("probe", "closed_callback_asked_for_retry");
	p_destroy_alive = counter_id("probe", "service_destroyed_with_live_connections");
	p_hostile_refused = counter_id("stat", "hostile_raw_connect_refused");
	p_hostile_raw = counter_id("probe", "hostile_raw_handshake_connections");
	p_hostile_shutdown = counter_id("probe", "hostile_peer_shut_down_one_direction_and_stayed");
	p_req_rechecked = counter_id("probe", "request_compared_again_before_msg_process_returned");
	p_teardown_kill_armed = counter_id("probe", "server_death_armed_inside_connection_teardown");
	p_list_walk = counter_id("probe", "connection_list_walked");
	p_client_died = counter_id("probe", "client_process_died");
	p_server_died = counter_id("probe", "server_process_died");
	p_refused = counter_id("probe", "connection_refused_by_accept");
	p_auth_set = counter_id("probe", "auth_set_by_accept");
	p_pollin_checked = counter_id("probe", "pollin_invariant_checked_with_events_queued");
	p_sendv_recv = counter_id("probe", "sendv_recv_completed");
	p_event_delivered = counter_id("probe", "events_delivered");
	p_resp_delivered = counter_id("probe", "responses_delivered");
	p_req_delivered = counter_id("probe", "requests_delivered");
	p_kill_fired = counter_id("fault", "kill_before");
	p_hostile_conn = counter_id("probe", "hostile_connections");
	p_drain_ok = counter_id("probe", "final_drain_completed");
	p_client_cleanup_checked = counter_id("probe", "client_cleanup_after_server_death_checked");
	p_planted = counter_id("probe", "peer_planted_file_in_connection_directory");
	p_owner_checked = counter_id("probe", "path_ownership_checked_after_connect");
	p_deferred_window = counter_id("probe", "event_unread_while_notification_deferred");
	{ const char *av = getenv("SIMK_AVOID"); g_avoid_deferred = av && strstr(av, "deferred-notify-window"); }
	counter_id("fault", "eintr"); counter_id("fault", "send_eagain"); counter_id("fault", "send_short"); counter_id("fault", "recv_short");
}

#define VIOL(prop, cls, site, ...) do { if (which == (prop) || (prop) == 0) fail(cls, site, __VA_ARGS__); } while (0)
static bool is_disc_err(ssize_t r)
{
	if (r >= 0) return false;
	return !(r == -EAGAIN || r == -ETIMEDOUT || r == -EINTR || r == -EMSGSIZE || r == -ENOMSG || r == -EINVAL || r == -ENOBUFS);
}

// ------------------------------------------------------------------ server side
static void fire(int kind, Conn *c);

static int32_t s_job_add(enum qb_loop_priority p, void *data, qb_loop_job_dispatch_fn fn) { return qb_loop_job_add(G.loop, p, data, fn); }
static int32_t s_dispatch_add(enum qb_loop_priority p, int32_t fd, int32_t ev, void *data, qb_ipcs_dispatch_fn_t fn) { return qb_loop_poll_add(G.loop, p, fd, ev, data, fn); }
static int32_t s_dispatch_mod(enum qb_loop_priority p, int32_t fd, int32_t ev, void *data, qb_ipcs_dispatch_fn_t fn) { return qb_loop_poll_mod(G.loop, p, fd, ev, data, fn); }
static int32_t s_dispatch_del(int32_t fd) { return qb_loop_poll_del(G.loop, fd); }

static Conn *conn_of(qb_ipcs_connection_t *sc)
{
	std::map<qb_ipcs_connection_t *, Conn *>::iterator it = G.by_sc.find(sc);
	return it == G.by_sc.end() ? NULL : it->second;
}

static void server_send(Conn &c, int dir, uint32_t len, bool use_iov)
{
	// dir 1 response, 2 event
	if (c.destroyed || !c.sc) return;
	Msg m; memset(&m, 0, sizeof m);
	m.dir = dir; m.len = len; m.serial = dir == 1 ? ++c.resp_serial : ++c.ev_serial;
	std::vector<uint8_t> buf;
	build_msg((uint32_t)c.id, m, buf);
	uint8_t *heap = (uint8_t *)malloc(len ? len : 1);
	memcpy(heap, buf.data(), len);
	c.fl_out = true; c.fl_out_m = m; c.fl_out_taken = false;
	ssize_t r;
	if (dir == 2) use_iov = (m.serial & 1) != 0;     // every other event goes through qb_ipcs_event_sendv
	if (use_iov && len > 4) {
		struct iovec iov[2];
		iov[0].iov_base = heap; iov[0].iov_len = len / 2;
		iov[1].iov_base = heap + len / 2; iov[1].iov_len = len - len / 2;
		r = dir == 1 ? qb_ipcs_response_sendv(c.sc, iov, 2) : qb_ipcs_event_sendv(c.sc, iov, 2);
	} else {
		r = dir == 1 ? qb_ipcs_response_send(c.sc, heap, len) : qb_ipcs_event_send(c.sc, heap, len);
	}
	free(heap);
	c.fl_out = false;
	ev(400 + (uint32_t)dir, c.id, r);
	if (r == (ssize_t)len) {
		if (c.fl_out_taken) count(p_early_out);
		else (dir == 1 ? c.resp : c.evq).push_back(m);
	} else {
		if (dir == 1) c.resp_serial--; else c.ev_serial--;
		if (r == -EAGAIN || r == -ENOBUFS) count(p_notify_deferred);
		if (r == -EMSGSIZE) {
			count(p_emsgsize);
			if (len <= c.max_msg) VIOL(2, "emsgsize-within-limit", "qb_ipcs_event_send", "server send of %u bytes returned -EMSGSIZE with negotiated maximum %u", len, c.max_msg);
		}
		if (c.fl_out_taken && !is_disc_err(r))
			VIOL(2, "failed-send-delivered", dir == 1 ? "qb_ipcs_response_send" : "qb_ipcs_event_send",
			     "server %s send returned %zd (not a disconnect) but the client received the message", dir == 1 ? "response" : "event", r);
		if (r >= 0 && r != (ssize_t)len) VIOL(2, "send-bad-return", "qb_ipcs_event_send", "server send of %u bytes returned %zd", len, r);
	}
}

// C05: the connection directory exists (and belongs to the peer) before the accept callback runs; while the callback
// runs, another process of that peer may put something where the server is about to create a channel file
static int client_of_path(const std::string &p);
static void plant_file(Conn &c)
{
	// the directory of the connection being accepted: the newest one made for this client
	std::string dir;
	for (size_t n = 0; n < G.ledger_order.size(); n++) {
		struct stat st;
		if (client_of_path(G.ledger_order[n]) == c.client && lstat(G.ledger_order[n].c_str(), &st) == 0 && S_ISDIR(st.st_mode)) dir = G.ledger_order[n];
	}
	if (dir.empty()) return;
	static const char *const CH[3] = { "request", "response", "event" };
	int w = G.plantf[c.client] % 6;
	std::string name = G.transport ? dir + "/qb-control-" + G.svc_name
				       : dir + "/qb-" + CH[w / 2] + "-" + G.svc_name + (w % 2 ? "-data" : "-header");
	if (G.plant[c.client] == 1) {
		char v[300]; snprintf(v, sizeof v, "%s/victim-%d-%zu", scratch_dir(), c.client, G.victims.size());
		int fd = open(v, O_CREAT | O_WRONLY | O_TRUNC, 0600);
		if (fd < 0) return;
		char fill[64]; memset(fill, 'V', sizeof fill);
		if (write(fd, fill, sizeof fill) != (ssize_t)sizeof fill) {}
		close(fd);
		if (symlink(v, name.c_str()) != 0) { unlink(v); return; }
		G.victims.push_back(v);
	} else {
		int fd = open(name.c_str(), O_CREAT | O_WRONLY | O_EXCL, 0666);
		if (fd < 0) return;
		fchmod(fd, 0666);
		close(fd);
	}
	G.planted.insert(name);
	count(p_planted);
}

static int32_t cb_accept(qb_ipcs_connection_t *sc, uid_t uid, gid_t gid)
{
	G.conns.push_back(Conn());
	Conn &c = G.conns.back();
	c.id = (int)G.conns.size() - 1;
	c.sc = sc;
	G.by_sc[sc] = &c;          // the allocator may reuse an address: the map always points at the newest generation
	c.accepted_cb = true;
	struct qb_ipcs_connection_stats st; memset(&st, 0, sizeof st);
	qb_ipcs_connection_stats_get(sc, &st, 0);
	int peer = st.client_pid;
	for (int k = 0; k < G.nclients; k++) if (G.cl[k].spid == peer) c.client = k;
	ev(410, c.id, c.client);
	Proc *pp = proc_get(peer);
	if (!pp && which == 5)
		VIOL(5, "accept-wrong-credentials", "qb_ipcs_connection_accept", "accept callback got pid %d uid %u gid %u: credentials of no process that connected", peer, (unsigned)uid, (unsigned)gid);
	if (pp) {
		if (pp->uid != uid || pp->gid != gid)
			VIOL(5, "accept-wrong-credentials", "qb_ipcs_connection_accept", "accept callback got uid %u gid %u, the peer (sim pid %d) has uid %u gid %u",
			     (unsigned)uid, (unsigned)gid, peer, pp->uid, pp->gid);
		c.auth_uid = pp->uid; c.auth_gid = pp->gid;
	}
	c.auth_mode = 0600;
	int res = 0;
	if (c.client >= 0) {
		if (G.auth_set[c.client]) {
			qb_ipcs_connection_auth_set(sc, G.auth_uid[c.client], G.auth_gid[c.client], G.auth_mode[c.client]);
			c.auth_uid = G.auth_uid[c.client]; c.auth_gid = G.auth_gid[c.client]; c.auth_mode = G.auth_mode[c.client];
			// an id of -1 is handed to chown(2) as it is: that id of the files stays the server's own
			Proc *sp = proc_get(G.server_spid);
			// (the connection directory was given to the peer before the callback ran and -1 leaves that as it is: its owner is
			// then not judged for that id)
			if (c.auth_uid == (unsigned)-1) { c.auth_uid = sp ? sp->uid : 0; c.dir_uid_any = true; }
			if (c.auth_gid == (unsigned)-1) { c.auth_gid = sp ? sp->gid : 0; c.dir_gid_any = true; }
			count(p_auth_set);
		}
		res = -G.accept_policy[c.client];
	}
	if (c.client < 0 && which == 6) res = 0;      // the hostile peer may be let in (it then abuses the raw channels)
	if (c.client < 0 && which == 5) res = -EACCES; // C05: the hand-written peer is only there for its credentials; it is refused
	if (which == 5 && c.client >= 0 && G.plant[c.client]) plant_file(c);
	fire(T_ACCEPT, &c);
	c.accept_ok = res == 0;
	if (res != 0) { c.refused = -res; count(p_refused); }
	return res;
}

static void cb_created(qb_ipcs_connection_t *sc)
{
	Conn *c = conn_of(sc);
	if (!c || !c->accepted_cb || !c->accept_ok) { VIOL(4, "created-without-accept", "qb_ipcs_connection_created", "connection_created for a connection that was not accepted"); return; }
	if (c->created) VIOL(4, "created-twice", "qb_ipcs_connection_created", "connection_created ran twice for connection %d", c->id);
	if (c->destroyed) VIOL(4, "callback-after-destroyed", "qb_ipcs_connection_created", "connection_created after connection_destroyed for connection %d", c->id);
	c->created = true;
	c->max_msg = (uint32_t)qb_ipcs_connection_get_buffer_size(sc);
	ev(411, c->id);
	c->in_created_cb = true;
	fire(T_CREATED, c);
	c->in_created_cb = false;
}

static void unref_job(void *data)
{
	qb_ipcs_connection_t *sc = (qb_ipcs_connection_t *)data;
	Conn *c = conn_of(sc);
	if (c && c->app_refs > 0 && !c->destroyed) { c->app_refs--; qb_ipcs_connection_unref(sc); }
}

static int32_t cb_msg(qb_ipcs_connection_t *sc, void *data, size_t size)
{
	Conn *c = conn_of(sc);
	G.msgs_seen++;
	if (!c) { VIOL(0, "msg-for-unknown-connection", "qb_ipcs_msg_process", "msg_process for a connection no accept callback announced"); return 0; }
	ev(412, c->id, (int64_t)size);
	if (!c->accept_ok) { VIOL(5, "msg-from-refused-peer", "qb_ipcs_msg_process", "msg_process invoked for connection %d which the accept callback refused", c->id); return 0; }
	if (!c->created) VIOL(4, "msg-before-created", "qb_ipcs_msg_process", "msg_process before connection_created for connection %d", c->id);
	if (c->closed_calls > 0) VIOL(4, "msg-after-closed", "qb_ipcs_msg_process", "msg_process after connection_closed for connection %d", c->id);
	if (c->destroyed) VIOL(4, "callback-after-destroyed", "qb_ipcs_msg_process", "msg_process after connection_destroyed for connection %d", c->id);
	if (c->fc) VIOL(2, "dispatch-under-flow-control", "qb_ipcs_msg_process", "request dispatched for connection %d while flow control level %d is on", c->id, c->fc);
	if (c->client < 0) {
		// hostile accepted peer: only the C06 bounds are judged
		if (size > c->max_msg) VIOL(6, "size-above-negotiated-max", "qb_ipcs_msg_process", "msg_process size %zu exceeds the negotiated maximum %u", size, c->max_msg);
		bool backed = false;
		for (size_t i = 0; i < g_raw_sent.size(); i++)
			if ((size_t)(uint32_t)g_raw_sent[i].claimed == size && g_raw_sent[i].bytes >= size) backed = true;
		if (!backed) VIOL(6, "size-exceeds-received", "qb_ipcs_msg_process", "msg_process was told %zu bytes but the peer never sent a message of at least that many bytes claiming that length", size);
		volatile uint8_t sink = 0;
		for (size_t i = 0; i < size; i++) sink ^= ((uint8_t *)data)[i];   // the callback may read what it was told it got
		(void)sink;
		return 0;
	}
	// the request must be the oldest accepted, not yet delivered one: exactly once, in order, intact
	Msg m; bool early = false;
	// requests whose sender could not tell whether they were queued may or may not show up
	while (!c->req.empty() && c->req.front().maybe) {
		std::vector<uint8_t> exp; build_msg((uint32_t)c->id, c->req.front(), exp);
		if (exp.size() == size && memcmp(exp.data(), data, size) == 0) break;
		c->req.pop_front();
	}
	if (c->req.size() > 51) count(p_req_storm);
	if (!c->req.empty()) { m = c->req.front(); c->req.pop_front(); }
	else if (c->fl_req && !c->fl_req_taken) { m = c->fl_req_m; c->fl_req_taken = true; early = true; count(p_early_req); }
	else {
		VIOL(2, "request-not-sent", "qb_ipcs_msg_process", "msg_process of %zu bytes for connection %d, but every accepted request was already delivered", size, c->id);
		return 0;
	}
	(void)early;
	if (size != m.len) VIOL(2, "request-wrong-length", "qb_ipcs_msg_process", "connection %d request #%llu: msg_process got %zu bytes, %u were sent", c->id, (unsigned long long)m.serial, size, m.len);
	else {
		std::vector<uint8_t> exp; build_msg((uint32_t)c->id, m, exp);
		if (memcmp(exp.data(), data, size) != 0) {
			size_t k = 0; while (k < size && exp[k] == ((uint8_t *)data)[k]) k++;
			VIOL(2, "request-wrong-bytes", "qb_ipcs_msg_process", "connection %d request #%llu (%u bytes) differs at byte %zu", c->id, (unsigned long long)m.serial, m.len, k);
		}
	}
	c->n_req_delivered++; count(p_req_delivered); G.n_msgs_ok++;
	c->in_msg = true;
	struct InMsg { Conn *c; ~InMsg() { c->in_msg = false; } } in_msg_guard = { c };
	int ret = 0;
	if (m.reply_len >= RES_HDR) server_send(*c, 1, (uint32_t)m.reply_len, (m.flags & DF_SENDV_REPLY) != 0);
	for (int k = 0; k < m.nevents && k < 16 && !failed(); k++) server_send(*c, 2, (uint32_t)std::max(RES_HDR, m.evlen), false);
	if (m.flags & DF_HOLD_REF) {
		qb_ipcs_connection_ref(sc); c->app_refs++;
		qb_loop_job_add(G.loop, QB_LOOP_LOW, sc, unref_job);
	}
	fire(T_MSG, c);
	if ((m.flags & DF_SLOW) && !failed() && !c->destroyed) {
		// an application that takes its time over a request: whatever the clients send meanwhile piles up
		struct timespec ts = { 0, 30000000 };
		simk_nanosleep(&ts, NULL);
		count(p_slow_cb);
	}
	// the request belongs to the callback until it returns: whatever the client queued meanwhile must not have touched it
	if (size == m.len && !failed() && !c->destroyed && c->closed_calls == 0) {
		std::vector<uint8_t> exp; build_msg((uint32_t)c->id, m, exp);
		if (memcmp(exp.data(), data, size) != 0) {
			size_t k = 0; while (k < size && exp[k] == ((uint8_t *)data)[k]) k++;
			VIOL(2, "request-changed-during-callback", "qb_ipcs_msg_process", "connection %d request #%llu (%u bytes) was intact when msg_process started but differs at byte %zu before it returned", c->id, (unsigned long long)m.serial, m.len, k);
		}
		count(p_req_rechecked);
	}
	if ((m.flags & DF_DISCONNECT_SELF) && !c->destroyed && c->closed_calls == 0) {
		count(p_disc_in_msg);
		c->server_dropping = true;
		qb_ipcs_disconnect(sc);
	}
	// "0 == good, negative == backoff": any negative value backs off, any other value is "good"
	{ static const int32_t OKS[4] = { 0, 0, 1, 77 }, NEGS[4] = { -1, -11, -105, INT32_MIN }; ret = OKS[(size_t)(m.serial % 4)]; if (m.flags & DF_RET_NEG) { count(p_backoff); ret = NEGS[(size_t)(m.serial % 4)]; } }
	return ret;
}

static int32_t cb_closed(qb_ipcs_connection_t *sc)
{
	Conn *c = conn_of(sc);
	if (!c) { VIOL(4, "closed-for-unknown-connection", "qb_ipcs_connection_closed", "connection_closed for an unknown connection"); return 0; }
	ev(413, c->id, c->closed_calls);
	if (!c->created) VIOL(4, "closed-without-created", "qb_ipcs_connection_closed", "connection_closed for connection %d that was never reported created", c->id);
	if (c->destroyed) VIOL(4, "callback-after-destroyed", "qb_ipcs_connection_closed", "connection_closed after connection_destroyed for connection %d", c->id);
	if (c->closed_done) VIOL(4, "closed-after-it-returned-zero", "qb_ipcs_connection_closed", "connection_closed invoked again for connection %d after it had returned 0", c->id);
	c->closed_calls++;
	c->server_gone = true;
	fire(T_CLOSED, c);
	if (c->closed_retries_left > 0) {
		// "if you return anything but 0 this function will be repeatedly called" (qbipcs.h): positive and negative values alike
		static const int32_t VALS[4] = { 1, -1, 5, -7 };
		c->closed_retries_left--; count(p_closed_retry);
		return c->closed_retry_salt == 0 ? 1 : VALS[(size_t)(c->closed_calls + c->closed_retry_salt) % 4];
	}
	c->closed_done = true;
	return 0;
}

static void cb_destroyed(qb_ipcs_connection_t *sc)
{
	Conn *c = conn_of(sc);
	if (!c) { VIOL(4, "destroyed-for-unknown-connection", "qb_ipcs_connection_destroyed", "connection_destroyed for an unknown connection"); return; }
	ev(414, c->id);
	if (c->destroyed) VIOL(4, "destroyed-twice", "qb_ipcs_connection_destroyed", "connection_destroyed ran twice for connection %d", c->id);
	// (a connection disconnected from inside its own connection_created callback was never established: the library
	// then skips connection_closed, which the property's wording "closed is only invoked if created was" permits)
	if (c->created && !c->closed_done && !c->disc_in_created) VIOL(4, "destroyed-before-closed", "qb_ipcs_connection_destroyed", "connection %d destroyed although connection_closed has not returned 0 yet (calls %d)", c->id, c->closed_calls);
	if (c->app_refs > 0) VIOL(4, "destroyed-with-app-reference", "qb_ipcs_connection_destroyed", "connection %d destroyed while the application still holds %d reference(s)", c->id, c->app_refs);
	c->destroyed = true;
	c->server_gone = true;
	fire(T_DESTROYED, c);
}

// C03: the server process dies at its n-th libc call after starting to tear a connection (or the service) down
static void arm_teardown_kill(int64_t n)
{
	ShimCfg &c = shim_cfg();
	if (which != 3 || n <= 0 || c.kill_spid != G.server_spid || c.kill_countdown > 0) return;
	c.kill_countdown = n;
	count(p_teardown_kill_armed);
}

static void do_server_op(const Op &op, Conn *ctx)
{
	ev(420 + (uint32_t)op.kind, ctx ? ctx->id : -1, op.a[3]);
	switch (op.kind) {
	case K_S_RATE: {
		if (!G.svc || G.svc_destroyed) break;
		static const enum qb_ipcs_rate_limit RL[5] = { QB_IPCS_RATE_FAST, QB_IPCS_RATE_NORMAL, QB_IPCS_RATE_SLOW, QB_IPCS_RATE_OFF, QB_IPCS_RATE_OFF_2 };
		int k = (int)(((op.a[3] % 5) + 5) % 5);
		int fc = k == 3 ? 1 : k == 4 ? 2 : 0;
		// the call is not atomic for the clients (it makes system calls per connection): a client call that overlaps it
		// may see either level, so the change counts from before the call starts until after it has returned
		for (size_t i = 0; i < G.conns.size(); i++) {
			Conn &c = G.conns[i];
			if (c.accept_ok && !c.destroyed && c.closed_calls == 0 && c.created && c.fc != fc) { c.fc_changes++; c.fc_changing = true; }
		}
		qb_ipcs_request_rate_limit(G.svc, RL[k]);
		for (size_t i = 0; i < G.conns.size(); i++) {
			Conn &c = G.conns[i];
			c.fc_changing = false;
			if (c.accept_ok && !c.destroyed && c.closed_calls == 0 && c.created) { if (c.fc != fc) { count(p_fc_toggled); c.fc_changes++; } c.fc = fc; }
		}
		break; }
	case K_S_EVENT: {
		// push events to a connection (op.a[4] = target connection ordinal, -1 = context)
		Conn *t = ctx;
		if (op.a[4] >= 0 && (size_t)op.a[4] < G.conns.size()) t = &G.conns[(size_t)op.a[4]];
		if (!t || !t->created || t->destroyed || t->closed_calls > 0 || t->client < 0) break;
		int n = (int)std::max<int64_t>(1, std::min<int64_t>(20, op.a[5]));
		for (int k = 0; k < n && !failed(); k++) server_send(*t, 2, (uint32_t)std::max<int64_t>(RES_HDR, std::min<int64_t>(op.a[3], 1 << 20)), false);
		break; }
	case K_S_DISCONNECT: {
		Conn *t = ctx;
		if (op.a[4] >= 0 && (size_t)op.a[4] < G.conns.size()) t = &G.conns[(size_t)op.a[4]];
		if (!t || t->destroyed || !t->created || t->closed_calls > 0 || t->disc_in_created) break;     // legal: a connection the application knows as open
		if (t->in_created_cb) t->disc_in_created = true;
		t->server_dropping = true;
		arm_teardown_kill(op.a[5]);
		qb_ipcs_disconnect(t->sc);
		break; }
	case K_S_REF: {
		Conn *t = ctx;
		if (!t || t->destroyed || !t->accept_ok) break;
		qb_ipcs_connection_ref(t->sc); t->app_refs++;
		G.held_refs.push_back(std::make_pair(t->sc, (int)std::max<int64_t>(1, std::min<int64_t>(30, op.a[3]))));
		break; }
	case K_S_ITERATE: {
		if (!G.svc || G.svc_destroyed) break;
		count(p_list_walk);
		qb_ipcs_connection_t *it = qb_ipcs_connection_first_get(G.svc);
		int guard = 0;
		while (it && guard++ < 64) {
			Conn *lc = conn_of(it);
			if (lc && lc->destroyed)
				VIOL(4, "list-returned-destroyed-connection", "qb_ipcs_connection_next_get", "the connection list handed out connection %d after (or while) its connection_destroyed callback ran", lc->id);
			qb_ipcs_connection_t *nx = qb_ipcs_connection_next_get(G.svc, it);
			qb_ipcs_connection_unref(it);
			it = nx;
		}
		break; }
	case K_S_STATS: {
		if (!G.svc || G.svc_destroyed) break;
		// statistics are read - and, every other time, cleared - for the service and for every listed connection, through
		// both connection calls: reading or clearing counters changes nothing about what the connections do
		int32_t clear = (op.a[3] & 1) ? QB_TRUE : QB_FALSE;
		struct qb_ipcs_stats st; qb_ipcs_stats_get(G.svc, &st, clear);
		if (clear) count(p_stats_cleared);
		qb_ipcs_connection_t *it = qb_ipcs_connection_first_get(G.svc);
		int guard = 0;
		while (it && guard++ < 64) {
			struct qb_ipcs_connection_stats cs;
			qb_ipcs_connection_stats_get(it, &cs, clear);
			struct qb_ipcs_connection_stats_2 *cs2 = qb_ipcs_connection_stats_get_2(it, clear);
			free(cs2);
			qb_ipcs_connection_t *nx = qb_ipcs_connection_next_get(G.svc, it);
			qb_ipcs_connection_unref(it);
			it = nx;
		}
		break; }
	case K_S_DESTROY: {
		if (!G.svc || G.svc_destroyed) break;
		bool alive = false;
		for (size_t i = 0; i < G.conns.size(); i++) if (G.conns[i].accept_ok && !G.conns[i].destroyed) alive = true;
		if (alive) count(p_destroy_alive);
		G.svc_destroyed = true;
		arm_teardown_kill(op.a[5]);
		qb_ipcs_destroy(G.svc);
		break; }
	case K_S_CLOSED_RETRY:
		if (ctx) { ctx->closed_retries_left = (int)std::max<int64_t>(0, std::min<int64_t>(3, op.a[3])); ctx->closed_retry_salt = (int)(((op.a[4] % 4) + 4) % 4); }
		break;
	case K_S_DIE:
		count(p_server_died);
		G.server_dead = true; if (G.server_death_ns < 0) G.server_death_ns = now_ns();
		for (size_t i = 0; i < G.conns.size(); i++) G.conns[i].server_gone = true;
		proc_die();
		break;
	}
}

static void fire(int kind, Conn *c)
{
	int key = (kind << 8) | (c ? (c->id & 0xff) : 0xff);
	int64_t nth = G.trig_count[key]++;
	for (size_t i = 0; i < G.trigs.size() && !failed(); i++) {
		Trig &t = G.trigs[i];
		if (t.kind != kind || t.nth != nth) continue;
		if (t.conn >= 0 && (!c || t.conn != c->id)) continue;
		do_server_op(G.spec->plan.ops[t.op], c);
	}
}

static void tick(void *)
{
	if (G.server_dead) return;
	G.ticks++;
	fire(T_TICK, NULL);
	// references the application promised to drop later
	for (size_t i = 0; i < G.held_refs.size();) {
		if (--G.held_refs[i].second <= 0) {
			Conn *c = conn_of(G.held_refs[i].first);
			if (c && c->app_refs > 0 && !c->destroyed) {
				if (c->client >= 0 && (G.cl[c->client].dead || G.cl[c->client].done)) count(p_ref_outlives);
				c->app_refs--; qb_ipcs_connection_unref(G.held_refs[i].first);
			}
			G.held_refs.erase(G.held_refs.begin() + (long)i);
		} else i++;
	}
	// C03 / C04: a client whose end is closed is noticed while the service keeps running: closed and destroyed follow within a
	// bounded number of loop iterations (every tick is at least one), unless the application holds a reference, asked for
	// the closed callback to be retried, or the service is being destroyed anyway
	if ((which == 3 || which == 4) && !G.svc_destroyed && G.shutdown_tick < 0) {
		for (size_t i = 0; i < G.conns.size() && !failed(); i++) {
			Conn &c = G.conns[i];
			if (!c.accept_ok || !c.created || c.destroyed || c.client < 0 || c.client_closed_tick < 0) continue;
			if (c.app_refs > 0 || c.closed_retries_left > 0) { c.gone_ticks = 0; continue; }
			bool held = false;
			for (size_t h = 0; h < G.held_refs.size(); h++) if (G.held_refs[h].first == c.sc) held = true;
			if (held) { c.gone_ticks = 0; continue; }
			if (++c.gone_ticks > 60)
				VIOL(which, "closed-client-not-noticed", "qb_ipcs_dispatch_connection_request", "connection %d: its client's end has been closed for %d server ticks (closed callback calls %d) and connection_destroyed has not run, although the service is running and nothing holds the connection", c.id, c.gone_ticks, c.closed_calls);
		}
	}
	bool all = true, scripts = true;
	for (int k = 0; k < G.nclients; k++) {
		if (!G.cl[k].done && !G.cl[k].dead) all = false;
		if (!G.cl[k].script_done && !G.cl[k].dead && !G.cl[k].done) scripts = false;
	}
	if (scripts && !G.rate_reset && G.svc && !G.svc_destroyed) {
		// the scripted part is over: the application stops throttling so that what is queued can drain
		G.rate_reset = true;
		Op o; memset(&o, 0, sizeof o); o.kind = K_S_RATE; o.a[3] = 1;
		do_server_op(o, NULL);
	}
	// the service stays up until the hostile peer has finished what it set out to do as well
	if (G.hostile_task && !G.hostile_done) all = false;
	if (all && G.shutdown_tick < 0) G.shutdown_tick = G.ticks + 3;
	if (G.shutdown_tick >= 0 && G.ticks >= G.shutdown_tick) {
		// orderly end: drop what the application still holds, destroy the service, let the loop drain
		if (!G.held_refs.empty()) { for (size_t i = 0; i < G.held_refs.size(); i++) G.held_refs[i].second = 1; }
		else if (!G.svc_destroyed) { G.svc_destroyed = true; qb_ipcs_destroy(G.svc); }
		else if (G.ticks >= G.shutdown_tick + 6) { qb_loop_stop(G.loop); return; }
	}
	qb_loop_timer_handle th;
	// fine ticks while the scripted server actions are due, coarse ones afterwards (long client waits cost nothing then)
	qb_loop_timer_add(G.loop, QB_LOOP_LOW, (G.ticks < 60 ? 5 : 200) * QB_TIME_NS_IN_MSEC, NULL, tick, &th);
}

static void server_main(void *)
{
	G.loop = qb_loop_create();
	struct qb_ipcs_service_handlers sh;
	sh.connection_accept = cb_accept; sh.connection_created = cb_created; sh.msg_process = cb_msg;
	sh.connection_closed = cb_closed; sh.connection_destroyed = cb_destroyed;
	G.svc = qb_ipcs_create(G.svc_name.c_str(), 4, G.transport ? QB_IPC_SOCKET : QB_IPC_SHM, &sh);
	struct qb_ipcs_poll_handlers ph;
	ph.job_add = s_job_add; ph.dispatch_add = s_dispatch_add; ph.dispatch_mod = s_dispatch_mod; ph.dispatch_del = s_dispatch_del;
	qb_ipcs_poll_handlers_set(G.svc, &ph);
	int64_t enforce = G.spec->plan.get("enforce_size", 0);
	if (enforce > 0) qb_ipcs_enforce_buffer_size(G.svc, (uint32_t)enforce);
	int r = qb_ipcs_run(G.svc);
	if (r != 0) { fail("service-start-failed", "qb_ipcs_run", "qb_ipcs_run returned %d", r); return; }
	G.server_fd_baseline = fds_owned_by(G.server_spid, NULL, 0);
	G.server_started = true;
	qb_loop_timer_handle th;
	qb_loop_timer_add(G.loop, QB_LOOP_LOW, 5 * QB_TIME_NS_IN_MSEC, NULL, tick, &th);
	qb_loop_run(G.loop);
	ev(430, G.ticks);
	// everything that was accepted must have been destroyed by now (the service is gone and the loop drained)
	if (!failed()) {
		for (size_t i = 0; i < G.conns.size(); i++) {
			Conn &c = G.conns[i];
			if (c.accepted_cb && !c.destroyed)
				VIOL(which == 3 ? 3 : 4, "connection-never-destroyed", "qb_ipcs_connection_unref", "connection %d (client %d) was accepted but connection_destroyed never ran (created %d, closed calls %d, app refs %d)",
				     c.id, c.client, c.created, c.closed_calls, c.app_refs);
		}
	}
	if (!failed() && (which == 3 || which == 5 || which == 6)) {
		// descriptors: only the loop's own remain (the listening socket went with the service)
		int now = fds_owned_by(G.server_spid, NULL, 0);
		if (now > G.server_fd_baseline - 1)
			VIOL(which, "server-descriptor-leak", "qb_ipcs_disconnect", "server holds %d descriptors after every connection is gone; it held %d with the service running and none connected",
			     now, G.server_fd_baseline);
	}
	qb_loop_destroy(G.loop);
	G.loop = NULL;
	G.server_finished = true;
}

// ------------------------------------------------------------------ client side
static void client_note_result(ClientSt &k, ssize_t r)
{
	// every client call is made with valid arguments on a connection the client believes to be up: "invalid argument" is
	// never the explanation for a refusal (refusals are try-again, too-large, timed-out or disconnected)
	if (r == -EINVAL && !k.saw_disconnect && !G.server_dead && !G.svc_destroyed && k.conn && !k.conn->server_gone && !k.conn->server_dropping)
		VIOL(which == 3 || which == 4 ? which : 2, "call-refused-as-invalid", "qb_ipcc_send", "client %d: a call with valid arguments on an established connection returned -EINVAL", k.idx);
	if (is_disc_err(r)) {
		if (!k.saw_disconnect) { k.saw_disconnect = true; k.disconnect_seen_at = now_ns(); }
		if (k.conn) k.conn->client_gone = true;
	}
}

static void check_out_msg(ClientSt &k, int dir, const uint8_t *buf, ssize_t r, const char *site)
{
	Conn *c = k.conn;
	if (!c) return;
	std::deque<Msg> &q = dir == 1 ? c->resp : c->evq;
	Msg m;
	if (!q.empty()) { m = q.front(); q.pop_front(); }
	else if (c->fl_out && !c->fl_out_taken && c->fl_out_m.dir == dir) { m = c->fl_out_m; c->fl_out_taken = true; }
	else {
		VIOL(2, dir == 1 ? "response-not-sent" : "event-not-sent", site, "client %d received a %zd byte %s that no accepted server send accounts for", k.idx, r, dir == 1 ? "response" : "event");
		return;
	}
	if ((uint32_t)r != m.len) { VIOL(2, dir == 1 ? "response-wrong-length" : "event-wrong-length", site, "client %d: %s #%llu arrived with %zd bytes, %u were sent", k.idx, dir == 1 ? "response" : "event", (unsigned long long)m.serial, r, m.len); return; }
	std::vector<uint8_t> exp; build_msg((uint32_t)c->id, m, exp);
	if (memcmp(exp.data(), buf, (size_t)r) != 0) {
		size_t i = 0; while (i < (size_t)r && exp[i] == buf[i]) i++;
		VIOL(2, dir == 1 ? "response-wrong-bytes" : "event-wrong-bytes", site, "client %d: %s #%llu (%u bytes) differs at byte %zu", k.idx, dir == 1 ? "response" : "event", (unsigned long long)m.serial, m.len, i);
	}
	if (dir == 1) { c->n_resp_delivered++; count(p_resp_delivered); } else { c->n_ev_delivered++; count(p_event_delivered); }
	G.n_msgs_ok++;
}

static int client_of_path(const std::string &p);

static void check_pollin(ClientSt &k)
{
	Conn *c = k.conn;
	if (!c || !k.cc || c->client_gone || c->server_gone || G.server_dead || c->evq.empty()) return;
	int32_t fd = -1;
	if (qb_ipcc_fd_get(k.cc, &fd) != 0 || fd < 0) return;
	struct pollfd pf; pf.fd = fd; pf.events = POLLIN; pf.revents = 0;
	int r = poll(&pf, 1, 0);     // a real zero-timeout poll: observing does not perturb the schedule
	count(p_pollin_checked);
	if (!(r <= 0 || !(pf.revents & (POLLIN | POLLHUP | POLLERR)))) c->defer_since_poll = -1;
	if (r <= 0 || !(pf.revents & (POLLIN | POLLHUP | POLLERR))) {
		// two different things can be behind this: a notification the server still owes because the socket was
		// full when it tried (it is re-sent when the server's loop next sees POLLOUT), or a notification that is lost
		int owed = c->sc && !c->destroyed ? ((struct qb_ipcs_connection *)c->sc)->outstanding_notifiers : 0;
		if (owed > 0) {
			// The window of known finding K1 closes when the server's loop next handles POLLOUT for this connection: the
			// client's side of the socket is empty, so the server's side is writable, POLLOUT is level-triggered and the
			// connection's level gets a turn at least every third iteration. A window that is still open many loop
			// iterations later is not that finding: the deferred notifications are not being flushed at all.
			if (c->defer_since_poll < 0) c->defer_since_poll = (int64_t)G.server_polls;
			else if ((int64_t)G.server_polls - c->defer_since_poll > 20)
				VIOL(2, "deferred-notifications-not-flushed", "qb_ipcs_dispatch_connection_request",
				     "client %d has %zu event(s) whose send succeeded still unread and its poll descriptor is not readable; the server has owed %d notification(s) for %lld iterations of its loop although the socket is writable",
				     k.idx, c->evq.size(), owed, (long long)((int64_t)G.server_polls - c->defer_since_poll));
			count(p_deferred_window);
			if (!g_avoid_deferred)
				VIOL(2, "event-unread-while-notification-deferred", "new_event_notification",
				     "client %d has %zu event(s) whose send succeeded still unread, its poll descriptor is not readable, and the server still owes %d deferred notification(s)",
				     k.idx, c->evq.size(), owed);
		} else {
			VIOL(2, "events-queued-but-fd-not-readable", "qb_ipcs_event_send", "client %d has %zu event(s) whose send succeeded still unread, but its poll descriptor is not readable and no notification is pending", k.idx, c->evq.size());
		}
	}
}

static void client_send(ClientSt &k, const Op &op, int mode)
{
	// mode 0 send, 1 sendv, 2 sendv_recv
	if (!k.cc || !k.conn) return;
	Conn &c = *k.conn;
	Msg m; memset(&m, 0, sizeof m);
	m.dir = 0;
	int64_t len = op.a[0];
	if (len < REQ_HDR) len = REQ_HDR;
	if (len > (1 << 21)) len = 1 << 21;
	m.len = (uint32_t)len;
	m.reply_len = (int32_t)std::max<int64_t>(-1, std::min<int64_t>(op.a[1], 1 << 21));
	m.nevents = (int32_t)std::max<int64_t>(0, std::min<int64_t>(op.a[2], 8));
	m.evlen = (int32_t)std::max<int64_t>(RES_HDR, std::min<int64_t>(op.a[3], 1 << 21));
	m.flags = (int32_t)(op.a[4] & 31);
	if (which == 2 || which == 3 || which == 5) m.flags &= (DF_RET_NEG | DF_SENDV_REPLY | DF_SLOW);     // histories of disconnect/ref belong to C04
	if (mode == 2 && m.reply_len < RES_HDR) m.reply_len = RES_HDR;
	if (m.len < (uint32_t)REQ_HDR + sizeof(Directive)) { m.reply_len = -1; m.nevents = 0; m.flags = 0; }
	m.serial = ++c.req_serial;
	std::vector<uint8_t> buf; build_msg((uint32_t)c.id, m, buf);
	uint8_t *heap = (uint8_t *)malloc(m.len);
	memcpy(heap, buf.data(), m.len);
	if (m.len == c.max_msg) count(p_max_size_msg);
	c.fl_req = true; c.fl_req_m = m; c.fl_req_taken = false;
	ssize_t r;
	size_t rcap = (size_t)c.max_msg + 64;
	uint8_t *rbuf = NULL;
	int fc_before = c.fc_changing ? 0 : c.fc; uint64_t fc_ch_before = c.fc_changes;
	// nothing of this client's is queued or being processed and no flow control: there is no reason to refuse a send
	// (the request ring itself must be empty too: the server reclaims a request only after msg_process has returned)
	bool ring_empty = false;
	if (G.transport == 0 && c.sc && !c.destroyed) {
		struct qb_ipcs_connection *q = (struct qb_ipcs_connection *)c.sc;
		struct qb_ringbuffer_s *rb = q->request.u.shm.rb;
		ring_empty = rb && rb->shared_hdr && rb->shared_hdr->read_pt == rb->shared_hdr->write_pt;
	}
	bool idle_before = ring_empty && c.req.empty() && !c.in_msg && c.fc == 0 && !c.fc_changing && !k.saw_disconnect && !c.server_gone && !c.server_dropping && !G.server_dead && !G.svc_destroyed;
	uint64_t ndeliv_before = c.n_req_delivered;
	// "later calls fail immediately" is promised for a server that has died: the disconnect must have been reported AND the
	// server must already have been dead when this call started (a live server that is half-way through dropping the
	// connection can still take the request)
	bool disc_before = k.saw_disconnect && G.server_dead;
	int64_t w0 = task_blocked_ns();
	if (mode == 0) r = qb_ipcc_send(k.cc, heap, m.len);
	else {
		int niov = (int)std::max<int64_t>(1, std::min<int64_t>(4, op.a[5] > 0 ? op.a[5] : 2));
		struct iovec iov[4];
		size_t off = 0;
		for (int i = 0; i < niov; i++) {
			size_t part = i == niov - 1 ? m.len - off : m.len / (size_t)niov;
			iov[i].iov_base = heap + off; iov[i].iov_len = part; off += part;
		}
		if (mode == 1) r = qb_ipcc_sendv(k.cc, iov, (size_t)niov);
		else {
			rbuf = (uint8_t *)malloc(rcap);
			int32_t tmo = (int32_t)std::max<int64_t>(-1, std::min<int64_t>(op.a[5] >= 100 || op.a[5] < 0 ? op.a[5] : 500, 20000));
			if (tmo < 0 && !(G.server_dead || G.server_will_die)) tmo = 2500;
			r = qb_ipcc_sendv_recv(k.cc, iov, (uint32_t)niov, rbuf, rcap, tmo);
		}
	}
	c.fl_req = false;
	free(heap);
	ev(440 + (uint32_t)mode, c.id, r);
	client_note_result(k, r);
	if (which == 3 && disc_before && G.server_dead) {
		// C03: once a call has reported the disconnect, later calls fail immediately
		int64_t waited = task_blocked_ns() - w0;
		if (r >= 0 && m.len <= c.max_msg)
			VIOL(3, "send-succeeded-after-disconnect", "qb_ipcc_send", "client %d: a send returned %zd after an earlier call had reported the connection dead", k.idx, r);
		else if (waited > 50 * 1000000LL)
			VIOL(3, "late-failure-after-disconnect", "qb_ipcc_sendv_recv", "client %d: a call made after the disconnect had been reported waited %lld ms before failing", k.idx, (long long)(waited / 1000000));
	}
	if (which == 2 && r == -EAGAIN && mode != 2 && idle_before && m.len <= c.max_msg && c.fc_changes == fc_ch_before && !c.fc_changing && c.fc == 0 &&
	    c.n_req_delivered == ndeliv_before && !c.server_gone && !c.server_dropping && !G.server_dead && !G.svc_destroyed && G.spec->plan.get("rate_short", 0) == 0)
		VIOL(2, "send-refused-without-reason", mode == 0 ? "qb_ipcc_send" : "qb_ipcc_sendv", "client %d: send of %u bytes returned -EAGAIN although none of its requests is queued or being processed and flow control is off", k.idx, m.len);
	// flow control that was on (at a level this client honours) for the whole call must have refused the send
	if (fc_before > 0 && (uint32_t)fc_before <= k.fcmax && c.fc_changes == fc_ch_before && m.len <= c.max_msg &&
	    ((mode != 2 && r == (ssize_t)m.len) || (mode == 2 && (r >= 0 || c.fl_req_taken))))
		VIOL(2, "send-accepted-under-flow-control", mode == 0 ? "qb_ipcc_send" : "qb_ipcc_sendv", "client %d: send returned %zd although flow control level %d (client honours up to %u) was on for the whole call",
		     k.idx, r, fc_before, k.fcmax);
	bool queued = mode == 2 ? (r >= 0 || c.fl_req_taken) : (r == (ssize_t)m.len);
	if (mode == 2 && r < 0 && !c.fl_req_taken) {
		// the send half may have succeeded and only the receive half failed (timeout): then the request is queued.
		// We cannot tell from the return value alone; the request counts as accepted iff the server eventually sees it,
		// which the model allows either way by keeping it as "maybe queued".
		if (r == -ETIMEDOUT || is_disc_err(r) || r == -EAGAIN) { c.req.push_back(m); c.req.back().maybe = 1; queued = false; }
	}
	if (queued) {
		if (!c.fl_req_taken) c.req.push_back(m);
	} else if (!(mode == 2 && r < 0)) {
		c.req_serial--;
		if (r == -EMSGSIZE) {
			count(p_emsgsize);
			if (m.len <= c.max_msg) VIOL(2, "emsgsize-within-limit", "qb_ipcc_send", "client send of %u bytes returned -EMSGSIZE with negotiated maximum %u", m.len, c.max_msg);
		} else if (m.len > c.max_msg && r >= 0) {
			VIOL(2, "oversize-accepted", "qb_ipcc_send", "client send of %u bytes succeeded although the negotiated maximum is %u", m.len, c.max_msg);
		}
		if (r == -EAGAIN) { if (fc_before && (uint32_t)fc_before <= k.fcmax) count(p_send_eagain); else count(p_req_full); }
		if (c.fl_req_taken && !is_disc_err(r))
			VIOL(2, "failed-send-delivered", "qb_ipcc_send", "client %d send returned %zd (not a disconnect) but the server's msg_process received the request", k.idx, r);
		if (r >= 0) VIOL(2, "send-bad-return", "qb_ipcc_send", "client send of %u bytes returned %zd", m.len, r);
	}
	if (mode == 2 && r >= 0) { count(p_sendv_recv); check_out_msg(k, 1, rbuf, r, "qb_ipcc_sendv_recv"); }
	// (C03: a witness's exchange may time out while the server is busy burying the victim - libqb also cuts the wait
	// short after a spurious wake-up - so "served" is judged by the liveness tail: every reply must eventually arrive)
	free(rbuf);
}

static void client_recv(ClientSt &k, int dir, int32_t tmo)
{
	if (!k.cc || !k.conn) return;
	Conn &c = *k.conn;
	size_t cap = (size_t)c.max_msg + 64;
	uint8_t *buf = (uint8_t *)malloc(cap);
	// "wait for ever" only makes a bounded run when the server is going to die (C03); otherwise wait long, not for ever
	if (tmo < 0 && !(G.server_dead || G.server_will_die)) tmo = 2500;
	// plain qb_ipcc_recv(-1) is not promised to return after the server died (only sendv_recv and event_recv are)
	if (tmo < 0 && dir == 1) tmo = 2500;
	bool disc_before_recv = k.saw_disconnect && G.server_dead;
	// latency is what the call itself waited for; time during which this process simply was not scheduled does not count
	int64_t t0 = task_blocked_ns(), n0 = now_ns();
	ssize_t r = dir == 1 ? qb_ipcc_recv(k.cc, buf, cap, tmo) : qb_ipcc_event_recv(k.cc, buf, cap, tmo);
	int64_t t1 = task_blocked_ns();
	// how long the call went on after the server had died (it may have been waiting, legitimately, long before that)
	int64_t after_death = G.server_dead ? std::min<int64_t>(t1 - t0, now_ns() - std::max<int64_t>(n0, G.server_death_ns)) : 0;
	ev(445 + (uint32_t)dir, c.id, r);
	client_note_result(k, r);
	if (r >= 0) check_out_msg(k, dir, buf, r, dir == 1 ? "qb_ipcc_recv" : "qb_ipcc_event_recv");
	else if (r == 0) {}
	// C03: finite timeouts are honoured whatever happened to the server
	if (tmo >= 0 && t1 - t0 > (int64_t)tmo * 1000000LL + 50 * 1000000LL)
		VIOL(3, "client-call-overran-timeout", dir == 1 ? "qb_ipcc_recv" : "qb_ipcc_event_recv", "client %d: call with timeout %d ms took %lld ms of virtual time", k.idx, tmo, (long long)((t1 - t0) / 1000000));
	if (which == 3 && dir == 2 && disc_before_recv && G.server_dead && r < 0 && t1 - t0 > 50 * 1000000LL)
		VIOL(3, "late-failure-after-disconnect", "qb_ipcc_event_recv", "client %d: event_recv made after the disconnect had been reported waited %lld ms before failing", k.idx, (long long)((t1 - t0) / 1000000));
	if (tmo < 0 && G.server_dead && dir == 2 && after_death > 2 * 2000 * 1000000LL + 1000 * 1000000LL)
		VIOL(3, "client-wait-forever-not-bounded", "qb_ipcc_event_recv", "client %d: event_recv(-1) went on for %lld ms after the server had died", k.idx, (long long)(after_death / 1000000));
	free(buf);
}

static int shm_leftovers(int server_spid, int client_spid, bool files_only, std::string &example, const std::set<std::string> *skip = NULL, std::set<std::string> *dirs_out = NULL);

static void check_client_cleanup(ClientSt &k, bool server_dead_before)
{
	// C03: when the server died, the client's disconnect removes the shared-memory files the server left behind
	// (only when the server was already dead when the disconnect started: a server that dies later, half-way through its
	// own clean-up of a connection the client has already left, has nobody to tidy up after it)
	if (which != 3 || failed()) return;
	if (!server_dead_before) {
		std::string ex;
		shm_leftovers(G.server_spid, k.spid, false, ex, NULL, &k.left_dirs);
		return;
	}
	std::string ex;
	int n = shm_leftovers(G.server_spid, k.spid, true, ex, &k.left_dirs);
	count(p_client_cleanup_checked);
	if (n > 0)
		VIOL(3, "client-disconnect-leaves-files", "qb_ipcc_disconnect", "client %d disconnected after the server had died, yet %d shared-memory file(s) of its connection remain, e.g. %s", k.idx, n, ex.c_str() + 9);
}

static void client_main(void *arg)
{
	ClientSt &k = *(ClientSt *)arg;
	const Plan &p = G.spec->plan;
	// a client started before the service is published would only see ECONNREFUSED
	block_until([](void *) { return G.server_started || G.server_dead; }, NULL, -1, 0);
	for (size_t i = 0; i < p.ops.size() && !failed(); i++) {
		const Op &op = p.ops[i];
		if (op.task != 1 + k.idx) continue;
		ev(450 + (uint32_t)op.kind, k.idx, op.a[0]);
		switch (op.kind) {
		case K_C_CONNECT: {
			if (k.cc) break;
			size_t mx = (size_t)std::max<int64_t>(0, std::min<int64_t>(op.a[0], 1 << 20));
			size_t before = G.conns.size();
			errno = 0;
			k.cc = qb_ipcc_connect(G.svc_name.c_str(), mx);
			int e = errno;
			k.conn = NULL;
			k.saw_disconnect = false;
			// our server-side twin is the newest connection announced for this client since the call started
			for (size_t n = G.conns.size(); n-- > before;) if (G.conns[n].client == k.idx) { k.conn = &G.conns[n]; break; }
			if (k.cc) {
				if (!k.conn || !k.conn->accept_ok) {
					if (!G.server_dead) VIOL(5, "connected-without-accept", "qb_ipcc_connect", "client %d got a connection although no accept callback accepted it", k.idx);
					k.conn = NULL;
				} else {
					k.conn->cc = k.cc;
					if (k.conn->max_msg == 0) k.conn->max_msg = (uint32_t)qb_ipcc_get_buffer_size(k.cc);
					if ((uint32_t)qb_ipcc_get_buffer_size(k.cc) != k.conn->max_msg && k.conn->created)
						VIOL(2, "negotiated-size-mismatch", "qb_ipcc_connect", "client sees maximum %d, server %u", qb_ipcc_get_buffer_size(k.cc), k.conn->max_msg);
				}
				qb_ipcc_fc_enable_max_set(k.cc, k.fcmax);
				if (which == 5 && k.conn && !G.server_dead) {
					// from now on everything created for this connection belongs to whom the accept callback authorised
					for (std::vector<std::string>::iterator it = G.ledger_order.begin(); it != G.ledger_order.end() && !failed(); ++it) {
						if (client_of_path(*it) != k.idx) continue;
						struct stat st;
						if (lstat(it->c_str(), &st) != 0) continue;
						unsigned u = ~0u, g = ~0u;
						bool known = path_owner(it->c_str(), &u, &g);
						count(p_owner_checked);
						bool isdir = S_ISDIR(st.st_mode);
						if (!known || (u != k.conn->auth_uid && !(isdir && k.conn->dir_uid_any)) || (g != k.conn->auth_gid && !(isdir && k.conn->dir_gid_any)))
							VIOL(5, S_ISDIR(st.st_mode) ? "directory-wrong-owner" : "file-wrong-owner", "handle_new_connection",
							     "%s is owned by %d:%d, the accept callback authorised %u:%u (%s)", S_ISDIR(st.st_mode) ? "connection directory" : "shared file",
							     known ? (int)u : -1, known ? (int)g : -1, k.conn->auth_uid, k.conn->auth_gid, it->c_str() + 9);
					}
				}
			} else {
				if (k.conn && k.conn->refused) {
					if (e != k.conn->refused) VIOL(5, "refusal-errno-lost", "qb_ipcc_connect", "accept callback refused with %d but qb_ipcc_connect failed with errno %d", k.conn->refused, e);
				}
				if (k.conn) k.conn->client_gone = true;
				k.conn = NULL;
			}
			break; }
		case K_C_SEND: client_send(k, op, 0); break;
		case K_C_SENDV: client_send(k, op, 1); break;
		case K_C_SENDV_RECV: client_send(k, op, 2); break;
		case K_C_RECV: client_recv(k, 1, (int32_t)std::max<int64_t>(-1, std::min<int64_t>(op.a[0], 20000))); break;
		case K_C_EVENT_RECV: client_recv(k, 2, (int32_t)std::max<int64_t>(-1, std::min<int64_t>(op.a[0], 20000))); break;
		case K_C_POLLFD: check_pollin(k); break;
		case K_C_SLEEP: {
			struct timespec ts; int64_t us = std::max<int64_t>(1, std::min<int64_t>(op.a[0], 5000000));
			ts.tv_sec = us / 1000000; ts.tv_nsec = (us % 1000000) * 1000;
			simk_nanosleep(&ts, NULL);
			break; }
		case K_C_FCMAX:
			k.fcmax = (uint32_t)(((op.a[0] % 3) + 3) % 3);
			if (k.cc) qb_ipcc_fc_enable_max_set(k.cc, k.fcmax);
			break;
		case K_C_DISCONNECT:
			if (!k.cc) break;
			if (k.conn) k.conn->client_gone = true;
			{
				bool dead_before = G.server_dead;
				qb_ipcc_disconnect(k.cc);
				if (k.conn && k.conn->client_closed_tick < 0) k.conn->client_closed_tick = G.ticks;
				k.cc = NULL; k.conn = NULL;
				check_client_cleanup(k, dead_before);
			}
			break;
		case K_C_DIE:
			count(p_client_died);
			k.dead = true;
			if (k.conn) k.conn->client_gone = true;
			proc_die();
			break;
		}
		if (which == 2 && !failed()) check_pollin(k);
	}
	// liveness tail: with faults off and both sides running, everything accepted arrives (bounded)
	k.script_done = true;
	faults_enable(false);
	if (k.cc && k.conn && !failed()) {
		Conn &c = *k.conn;
		bool ended = false;
		// budget: 400 rounds of up to 100 ms each (the server can legitimately stall for seconds, e.g. while it retries
		// connecting an event socket to a client that just went away)
		for (int round = 0; round < 400 && !failed() && !ended; round++) {
			if (c.client_gone || c.server_gone || G.server_dead || c.destroyed || k.saw_disconnect) { ended = true; break; }
			bool want_resp = !c.resp.empty() || (c.fl_out && c.fl_out_m.dir == 1);
			bool want_ev = !c.evq.empty() || (c.fl_out && c.fl_out_m.dir == 2);
			bool req_pending = false;
			for (size_t n = 0; n < c.req.size(); n++) if (!c.req[n].maybe) req_pending = true;
			if (!want_resp && !want_ev && !req_pending) { count(p_drain_ok); ended = true; break; }
			if (want_resp) client_recv(k, 1, 100);
			if (want_ev && !k.saw_disconnect) client_recv(k, 2, 100);
			if (req_pending && !want_resp && !want_ev) { struct timespec ts = { 0, round < 20 ? 5000000 : 100000000 }; simk_nanosleep(&ts, NULL); }
		}
		bool judged = which == 2 || (which == 3 && G.spec->plan.get("witness", -1) == k.idx && !G.server_will_die);
		if (!ended && !failed() && judged && !c.fc && !c.client_gone && !c.server_gone && !G.server_dead && !k.saw_disconnect) {
			size_t nreq = 0;
			for (size_t n = 0; n < c.req.size(); n++) if (!c.req[n].maybe) nreq++;
			if (nreq || !c.resp.empty() || !c.evq.empty())
				VIOL(which, which == 3 ? "witness-not-served" : "accepted-message-never-delivered", "qb_loop_run", "client %d: after 400 fault-free rounds (about 40 s) %zu request(s), %zu response(s), %zu event(s) accepted by their sender are still undelivered",
				     k.idx, nreq, c.resp.size(), c.evq.size());
		}
	}
	if (k.cc) {
		if (k.conn) k.conn->client_gone = true;
		bool dead_before = G.server_dead;
		qb_ipcc_disconnect(k.cc);
		if (k.conn && k.conn->client_closed_tick < 0) k.conn->client_closed_tick = G.ticks;
		k.cc = NULL;
		check_client_cleanup(k, dead_before);
	}
	k.done = true;
}

// ------------------------------------------------------------------ hostile peer (C06)


static void hostile_main(void *)
{
	const Plan &p = G.spec->plan;
	int fd = -1;
	block_until([](void *) { return G.server_started || G.server_dead; }, NULL, -1, 0);
	for (size_t i = 0; i < p.ops.size() && !failed(); i++) {
		const Op &op = p.ops[i];
		if (op.task != 4) continue;
		ev(470 + (uint32_t)op.kind, op.a[0], op.a[1]);
		switch (op.kind) {
		case K_H_CONNECT: {
			if (fd >= 0) break;
			fd = simk_socket(PF_UNIX, SOCK_STREAM, 0);
			if (fd < 0) break;
			simk_fcntl(fd, F_SETFL, O_NONBLOCK);
			struct sockaddr_un a; memset(&a, 0, sizeof a);
			a.sun_family = AF_UNIX;
			snprintf(a.sun_path + 1, sizeof a.sun_path - 1, "%s", G.svc_name.c_str());
			// libqb binds the abstract name with the full size of sockaddr_un: the trailing NULs are part of the name
			if (simk_connect(fd, (struct sockaddr *)&a, (socklen_t)sizeof a) != 0) { simk_close(fd); fd = -1; count(p_hostile_refused); break; }
			int on = 1;
			// (op.a[0] != 0: a peer that does not ask for credentials on its own socket, unlike libqb's client)
			if (op.a[0] == 0) simk_setsockopt(fd, SOL_SOCKET, SO_PASSCRED, &on, sizeof on);
			count(p_hostile_conn); count(p_hostile_raw);
			break; }
		case K_H_SEND_PREFIX:
		case K_H_SEND_FIELD:
		case K_H_SEND_GARBAGE: {
			if (fd < 0) break;
			std::vector<uint8_t> b;
			if (op.kind == K_H_SEND_GARBAGE) {
				size_t n = (size_t)std::max<int64_t>(1, std::min<int64_t>(op.a[0], 70000));
				b.resize(n);
				Rng r((uint64_t)op.a[1]);
				for (size_t k = 0; k < n; k++) b[k] = (uint8_t)r.u64();
			} else {
				struct qb_ipc_connection_request rq; memset(&rq, 0, sizeof rq);
				rq.hdr.id = QB_IPC_MSG_AUTHENTICATE; rq.hdr.size = sizeof rq; rq.max_msg_size = 8192;
				if (op.kind == K_H_SEND_FIELD) {
					static const int64_t V[] = { 0, 1, -1, 0x7fffffff, (int64_t)0x80000000LL, 0xffffffffLL, 24, 4096, 65536, 1 << 20, -3, -2 };
					int64_t v = V[(size_t)(((op.a[1] % 12) + 12) % 12)];
					if (op.a[0] % 3 == 0) rq.hdr.id = (int32_t)v;
					else if (op.a[0] % 3 == 1) rq.hdr.size = (int32_t)v;
					else rq.max_msg_size = (uint32_t)v;
				}
				b.assign((uint8_t *)&rq, (uint8_t *)&rq + sizeof rq);
				if (op.kind == K_H_SEND_PREFIX) b.resize((size_t)std::max<int64_t>(0, std::min<int64_t>(op.a[0], (int64_t)sizeof rq)));
			}
			size_t chunk = op.a[2] > 0 ? (size_t)op.a[2] : b.size();
			size_t off = 0;
			while (off < b.size()) {
				size_t n = std::min(chunk, b.size() - off);
				ssize_t r = simk_send(fd, b.data() + off, n, MSG_NOSIGNAL);
				if (r <= 0) break;
				off += (size_t)r;
				if (op.a[3] > 0) { struct timespec ts = { 0, (long)std::min<int64_t>(op.a[3], 900000) * 1000 }; simk_nanosleep(&ts, NULL); }
			}
			break; }
		case K_H_SLEEP: {
			struct timespec ts; int64_t us = std::max<int64_t>(1, std::min<int64_t>(op.a[0], 3000000));
			ts.tv_sec = us / 1000000; ts.tv_nsec = (us % 1000000) * 1000;
			simk_nanosleep(&ts, NULL);
			break; }
		case K_H_SHUTDOWN:
			// valid (or not) bytes, then a peer that refuses to read the answer, or will not write any more, yet stays connected
			if (fd >= 0) { static const int HOW[3] = { SHUT_RD, SHUT_WR, SHUT_RDWR }; simk_shutdown(fd, HOW[(size_t)(((op.a[0] % 3) + 3) % 3)]); count(p_hostile_shutdown); }
			break;
		case K_H_CLOSE:
			if (fd >= 0) { simk_close(fd); fd = -1; }
			if (g_hostile_cc) { qb_ipcc_disconnect(g_hostile_cc); g_hostile_cc = NULL; }
			break;
		case K_H_RAW_REQUEST: {
			// after a legitimate handshake, speak to the raw request channel with a lying header
			if (!g_hostile_cc) {
				// (a[3] = -(n+1): ask for n bytes - a handshake no libqb client would send - qb_ipcc_connect() raises the size it asks for to
				// that of the connection response - but any peer can)
				if (op.a[3] < 0) g_hostile_cc = hostile_connect_small(G.svc_name.c_str(), (size_t)std::min<int64_t>(-op.a[3] - 1, 4096));
				else g_hostile_cc = qb_ipcc_connect(G.svc_name.c_str(), (size_t)std::max<int64_t>(0, std::min<int64_t>(op.a[3], 100000)));
				if (!g_hostile_cc) break;
				count(p_hostile_conn);
			}
			struct qb_ipcc_connection *c = (struct qb_ipcc_connection *)g_hostile_cc;
			int64_t maxm = (int64_t)c->request.max_msg_size;
			int64_t real = op.a[0];
			if (real < 0) real = 0;
			if (real > maxm + 4096) real = maxm + 4096;
			static const int64_t REL[] = { 0, -1, 1, -8, 8, 4096, 65536, 0x7fffffff, -0x7fffffff, 16, 15, 17 };
			int64_t claimed;
			switch ((int)(((op.a[1] % 4) + 4) % 4)) {
			case 0: claimed = real; break;                                         // honest
			case 1: claimed = real + REL[(size_t)(((op.a[2] % 12) + 12) % 12)]; break; // relative lie
			case 2: claimed = REL[(size_t)(((op.a[2] % 12) + 12) % 12)]; break;        // absolute
			default: claimed = maxm + REL[(size_t)(((op.a[2] % 12) + 12) % 12)]; break;
			}
			std::vector<uint8_t> b((size_t)std::max<int64_t>(real, 1), 0x5a);
			struct qb_ipc_request_header h; memset(&h, 0, sizeof h);
			h.id = QB_IPC_MSG_USER_START + 7; h.size = (int32_t)claimed;
			if (real >= (int64_t)sizeof h) memcpy(b.data(), &h, sizeof h);
			else if (real > 0) memcpy(b.data(), &h, (size_t)real);
			RawSent rs; rs.bytes = (uint32_t)real; rs.claimed = (int32_t)claimed;
			ssize_t r;
			if (c->request.type == QB_IPC_SHM) {
				r = qb_rb_chunk_write(c->request.u.shm.rb, b.data(), (size_t)real);
				if (r == real) {
					g_raw_sent.push_back(rs);
					char one = 1;
					simk_send(c->setup.u.us.sock, &one, 1, MSG_NOSIGNAL);
				}
			} else {
				r = simk_send(c->request.u.us.sock, b.data(), (size_t)real, MSG_NOSIGNAL);
				if (r == real) g_raw_sent.push_back(rs);
			}
			break; }
		}
	}
	if (fd >= 0) simk_close(fd);
	if (g_hostile_cc) { qb_ipcc_disconnect(g_hostile_cc); g_hostile_cc = NULL; }
	G.hostile_done = true;
}

// ------------------------------------------------------------------ observers
static void on_path(const char *path, char what)
{
	if (cur_spid() != G.server_spid) return;
	if (strncmp(path, "/dev/shm/", 9) != 0) return;
	if (what == 'c' || what == 'd') { if (G.ledger_paths.insert(path).second) G.ledger_order.push_back(path); }
}

static int client_of_path(const std::string &p)
{
	// /dev/shm/qb-<server>-<client pid>-<fd>-XXXXXX/...
	int sp = 0, cp = 0;
	if (sscanf(p.c_str(), "/dev/shm/qb-%d-%d-", &sp, &cp) != 2) return -1;
	for (int k = 0; k < G.nclients; k++) if (G.cl[k].spid == cp) return k;
	return -1;
}

static void check_modes(const char *when)
{
	for (std::vector<std::string>::iterator it = G.ledger_order.begin(); it != G.ledger_order.end(); ++it) {
		struct stat st;
		if (lstat(it->c_str(), &st) != 0) continue;
		int k = client_of_path(*it);
		unsigned allowed = k >= 0 && G.auth_set[k] ? G.auth_mode[k] : 0600;
		if (S_ISLNK(st.st_mode)) {
			VIOL(5, "connection-file-is-a-symlink", "qb_sys_mmap_file_open", "%s: a channel file of an accepted connection is a symbolic link planted by the peer (%s)", when, it->c_str() + 9);
		} else if (S_ISDIR(st.st_mode)) {
			if (st.st_mode & 0777 & ~0770u)
				VIOL(5, "directory-too-permissive", "handle_new_connection", "%s: connection directory has mode %o (%s)", when, (unsigned)(st.st_mode & 0777), it->c_str() + 9);
		} else if (st.st_mode & 0777 & ~allowed) {
			VIOL(5, "file-too-permissive", "qb_sys_mmap_file_open", "%s: shared file has mode %o, the accept callback authorised %o (%s)", when, (unsigned)(st.st_mode & 0777), allowed, it->c_str() + 9);
		} else if (k >= 0 && G.auth_set[k] && S_ISREG(st.st_mode)) {
			// "at any moment of their existence": while a connection directory holds a file it belongs to whom the accept
			// callback authorised - not to the peer, who could otherwise unlink or replace what is being set up in it
			std::string dir = it->substr(0, it->rfind('/'));
			unsigned u = ~0u, g = ~0u;
			if (dir.size() > 9 && path_owner(dir.c_str(), &u, &g)) {
				bool ubad = G.auth_uid[k] != (unsigned)-1 && u != G.auth_uid[k], gbad = G.auth_gid[k] != (unsigned)-1 && g != G.auth_gid[k];
				if (ubad || gbad)
					VIOL(5, "directory-wrong-owner-while-files-exist", "handle_new_connection", "%s: %s exists while its directory is owned by %u:%u, the accept callback authorised %u:%u", when, it->c_str() + 9, u, g, G.auth_uid[k], G.auth_gid[k]);
			}
		}
	}
}

static void on_bad_close(int fd)
{
	// the server closing a descriptor number it has closed before: whatever was given that number in between - by another
	// thread, or by the application in one of its callbacks - would have been closed behind its owner's back
	if (cur_spid() == G.server_spid && !G.server_dead)
		VIOL(which, "descriptor-closed-twice", "close", "the server closed descriptor number %d although it is not open (it was closed before)", fd);
}

static void on_call(uint32_t)
{
	if (which == 5 && cur_spid() == G.server_spid && !G.ledger_paths.empty()) check_modes("between two server system calls");
}

#ifdef IPC_ACC
// ring-level interleaving inside the IPC world: ringbuffer.c is built with access instrumentation, every mapping of a
// shared file is a region, so client and server also interleave (and can die) inside ring operations
static void on_mmap(void *addr, size_t len, int prot, int flags, int fd)
{
	if (fd >= 0 && (flags & MAP_SHARED) && (prot & PROT_WRITE)) access_region_add(addr, len);
}
static void acc_hook(const void *, int, int, int, int, size_t)
{
	ShimCfg &c = shim_cfg();
	if (c.kill_spid && cur_spid() == c.kill_spid && fault_here(F_KILL_BEFORE, c.rate_kill / 8, NULL, 0)) proc_die();
}
#endif

static void on_proc_death(int spid)
{
	if (spid == G.server_spid) { G.server_dead = true; if (G.server_death_ns < 0) G.server_death_ns = now_ns(); count(p_server_died); for (size_t i = 0; i < G.conns.size(); i++) G.conns[i].server_gone = true; }
	for (int k = 0; k < G.nclients; k++) if (G.cl[k].spid == spid) { G.cl[k].dead = true; count(p_client_died); if (G.cl[k].conn) { G.cl[k].conn->client_gone = true; if (G.cl[k].conn->client_closed_tick < 0) G.cl[k].conn->client_closed_tick = G.ticks; } }
	count(p_kill_fired);
	// a process that died inside libqb leaves that library's static state (signal pipe, ...) behind in this OS process
	request_recycle();
}

static int shm_leftovers(int server_spid, int client_spid, bool files_only, std::string &example, const std::set<std::string> *skip, std::set<std::string> *dirs_out)
{
	int n = 0;
	DIR *d = opendir("/dev/shm");
	if (!d) return 0;
	char pre[64];
	if (client_spid) snprintf(pre, sizeof pre, "qb-%d-%d-", server_spid, client_spid);
	else snprintf(pre, sizeof pre, "qb-%d-", server_spid);
	struct dirent *de;
	while ((de = readdir(d))) {
		if (strncmp(de->d_name, pre, strlen(pre)) != 0) continue;
		if (skip && skip->count(de->d_name)) continue;
		if (dirs_out) dirs_out->insert(de->d_name);
		std::string p = std::string("/dev/shm/") + de->d_name;
		struct stat st;
		if (lstat(p.c_str(), &st) != 0) continue;
		if (S_ISDIR(st.st_mode)) {
			DIR *d2 = opendir(p.c_str());
			int inside = 0;
			if (d2) {
				struct dirent *e2;
				while ((e2 = readdir(d2))) if (strcmp(e2->d_name, ".") && strcmp(e2->d_name, "..")) { inside++; if (example.empty()) example = p + "/" + e2->d_name; }
				closedir(d2);
			}
			n += inside;
			if (!files_only) { n++; if (example.empty()) example = p; }
		} else { n++; if (example.empty()) example = p; }
	}
	closedir(d);
	return n;
}

static void rm_leftovers(int server_spid)
{
	DIR *d = opendir("/dev/shm");
	if (!d) return;
	char pre[64]; snprintf(pre, sizeof pre, "qb-%d-", server_spid);
	struct dirent *de;
	std::vector<std::string> dirs;
	while ((de = readdir(d))) if (!strncmp(de->d_name, pre, strlen(pre))) dirs.push_back(std::string("/dev/shm/") + de->d_name);
	closedir(d);
	for (size_t i = 0; i < dirs.size(); i++) {
		DIR *d2 = opendir(dirs[i].c_str());
		if (d2) {
			struct dirent *e2;
			while ((e2 = readdir(d2))) if (strcmp(e2->d_name, ".") && strcmp(e2->d_name, "..")) unlink((dirs[i] + "/" + e2->d_name).c_str());
			closedir(d2);
			rmdir(dirs[i].c_str());
		} else unlink(dirs[i].c_str());
	}
}

// ------------------------------------------------------------------ generation
static int64_t pick_len(Rng &r, int64_t maxm, int hdr)
{
	uint32_t k = (uint32_t)r.below(100);
	if (k < 20) return hdr;
	if (k < 30) return hdr + 1 + (int64_t)r.below(47);
	if (k < 60) return 48 + (int64_t)r.below(400);
	if (k < 70) return maxm - (int64_t)r.below(4);
	if (k < 76) return maxm + 1 + (int64_t)r.below(2);
	if (k < 80) return maxm + 4096;
	return hdr + (int64_t)r.below((uint64_t)std::max<int64_t>(1, maxm - hdr));
}

static void gen_client_script(Rng &r, Plan &p, int task, int64_t maxm, int w, bool will_die)
{
	int nops = r.chance(1, 2) ? (int)r.range(2, 10) : (int)r.range(10, 40);
	if (w == 3 || w == 5) nops = (int)r.range(1, 12);
	p.add(task, K_C_CONNECT, maxm);
	if (r.chance(1, 4)) p.add(task, K_C_FCMAX, r.below(3));
	for (int n = 0; n < nops; n++) {
		uint32_t k = (uint32_t)r.below(100);
		int64_t len = pick_len(r, maxm, REQ_HDR);
		int64_t reply = r.chance(1, 2) ? pick_len(r, maxm, RES_HDR) : -1;
		if (reply > maxm) reply = maxm;
		int64_t nev = r.chance(1, 3) ? (int64_t)r.range(1, 4) : 0;
		int64_t evlen = std::min<int64_t>(pick_len(r, maxm, RES_HDR), maxm);
		int64_t flags = 0;
		if (r.chance(1, 10)) flags |= DF_RET_NEG;
		if (r.chance(1, 4)) flags |= DF_SENDV_REPLY;
		if (w == 4) { if (r.chance(1, 8)) flags |= DF_DISCONNECT_SELF; if (r.chance(1, 5)) flags |= DF_HOLD_REF; }
		if (k < 30) p.add(task, K_C_SEND, len, reply, nev, evlen, flags);
		else if (k < 42) p.add(task, K_C_SENDV, len, reply, nev, evlen, flags, r.range(1, 4));
		else if (k < 55) p.add(task, K_C_SENDV_RECV, len, std::max<int64_t>(reply, RES_HDR), nev, evlen, flags & ~(int64_t)(DF_DISCONNECT_SELF), r.chance(1, 6) ? -1 : (int64_t)r.range(100, 3000));
		else if (k < 70) p.add(task, K_C_RECV, r.chance(1, 8) ? -1 : (int64_t)r.range(0, 300));
		else if (k < 82) p.add(task, K_C_EVENT_RECV, r.chance(1, 8) ? -1 : (int64_t)r.range(0, 300));
		else if (k < 87) p.add(task, K_C_POLLFD);
		else if (k < 95) p.add(task, K_C_SLEEP, r.range(10, 30000));
		else if (k < 98 && w != 2) { p.add(task, K_C_DISCONNECT); if (r.chance(2, 3)) p.add(task, K_C_CONNECT, maxm); }
		else p.add(task, K_C_FCMAX, r.below(3));
	}
	if (will_die) p.add(task, K_C_DIE);
	else if (r.chance(3, 4)) p.add(task, K_C_DISCONNECT);
}

// C03 thorough tier: enumerate every crash point of fixed base scenarios (DESIGN.md C03)
#define ENUM_KILLS 320
#define ENUM_SCEN 5
#define ENUM_TD_KILLS 96
static uint64_t enum_space1() { return 3ULL * ENUM_KILLS * ENUM_SCEN * 2 * 2; }
// second block: the server dies at the k-th libc call of a teardown it started itself (2 teardown kinds x 2 transports)
static uint64_t enum_space() { return enum_space1() + 3ULL * ENUM_TD_KILLS * 2 * 2; }

static void gen_enum_teardown(RunSpec &spec, uint64_t i)
{
	Plan &p = spec.plan;
	int variant = (int)(i % 3); i /= 3;
	int k = (int)(i % ENUM_TD_KILLS); i /= ENUM_TD_KILLS;
	int destroy = (int)(i % 2); i /= 2;
	int transport = (int)(i % 2);
	p.set("transport", transport);
	p.set("nclients", 2);
	p.set("maxm", 4096);
	p.set("uid0", 1000); p.set("gid0", 1000); p.set("uid1", 1001); p.set("gid1", 1001);
	p.set("kill_who", 0);
	p.set("rate_kill", 0);
	p.set("enum", 1);
	p.set("scenario", 5 + destroy);
	p.set("force_seq", variant == 0);
	const int64_t M = 4096;
	p.add(1, K_C_CONNECT, M);
	p.add(1, K_C_SENDV_RECV, 200, 120, 0, 0, 0, 1500);
	p.add(1, K_C_SLEEP, 60000);
	p.add(1, K_C_SENDV_RECV, 128, 64, 0, 0, 0, -1);
	p.add(1, K_C_EVENT_RECV, -1);
	p.add(1, K_C_RECV, 300);
	p.add(1, K_C_SEND, 64);
	p.add(1, K_C_DISCONNECT);
	p.add(2, K_C_CONNECT, M);
	p.add(2, K_C_SENDV_RECV, 100, 80, 0, 0, 0, 2000);
	p.add(2, K_C_SLEEP, 70000);
	p.add(2, K_C_SENDV_RECV, 101, 81, 0, 0, 0, 2000);
	p.add(2, K_C_DISCONNECT);
	if (destroy) p.add(0, K_S_DESTROY, T_TICK, -1, 5, 0, 0, k + 1);
	else p.add(0, K_S_DISCONNECT, T_TICK, -1, 5, 0, 0, k + 1);
	spec.explicit_faults = true;     // no other fault
}

static void gen_enum(RunSpec &spec)
{
	Plan &p = spec.plan;
	// a bijection of the index space (7919 is coprime to its size), so that a time-limited prefix samples all of it
	uint64_t i = (spec.index % enum_space()) * 7919ULL % enum_space();
	if (i >= enum_space1()) { gen_enum_teardown(spec, i - enum_space1()); return; }
	int variant = (int)(i % 3); i /= 3;
	int k = (int)(i % ENUM_KILLS); i /= ENUM_KILLS;
	int scen = (int)(i % ENUM_SCEN); i /= ENUM_SCEN;
	int transport = (int)(i % 2); i /= 2;
	int victim_is_client = (int)(i % 2);
	p.set("transport", transport);
	p.set("nclients", 2);
	p.set("maxm", 4096);
	p.set("uid0", 1000); p.set("gid0", 1000); p.set("uid1", 1001); p.set("gid1", 1001);
	p.set("kill_who", victim_is_client);
	p.set("rate_kill", 0);
	p.set("enum", 1);
	p.set("scenario", scen);
	p.set("witness", 1);
	p.set("force_seq", variant == 0);
	const int64_t M = 4096;
	// victim / first client (task 1)
	p.add(1, K_C_CONNECT, M);
	switch (scen) {
	case 0: p.add(1, K_C_SLEEP, 20000); break;
	case 1: for (int n = 0; n < 3; n++) p.add(1, K_C_SENDV_RECV, 200 + 31 * n, 120 + 17 * n, 0, 0, 0, 1500); break;
	case 2: p.add(1, K_C_SEND, 300, -1, 3, 260); p.add(1, K_C_EVENT_RECV, 500); p.add(1, K_C_EVENT_RECV, 500); break;
	case 3: p.add(1, K_C_SENDV_RECV, 1000, 900, 0, 0, 0, -1); break;
	default: for (int n = 0; n < 4; n++) p.add(1, K_C_SEND, 500 + 100 * n, 400, 2, 300); break;
	}
	// once the server is dead the client keeps calling: every call must come back, bounded
	if (!victim_is_client) {
		p.add(1, K_C_SENDV_RECV, 128, 64, 0, 0, 0, -1);
		p.add(1, K_C_EVENT_RECV, -1);
		p.add(1, K_C_RECV, 300);
		p.add(1, K_C_SEND, 64);
		p.add(1, K_C_EVENT_RECV, 50);
	}
	p.add(1, K_C_DISCONNECT);
	// witness (task 2): must be served throughout when the victim is the other client
	p.add(2, K_C_CONNECT, M);
	for (int n = 0; n < 3; n++) { p.add(2, K_C_SENDV_RECV, 100 + n, 80 + n, 0, 0, 0, 2000); p.add(2, K_C_SLEEP, 3000); }
	p.add(2, K_C_DISCONNECT);
	spec.explicit_faults = true;
	Fault f; f.task = victim_is_client ? 1 : 0;
	if (victim_is_client && k >= ENUM_KILLS - 24) {
		// every prefix of the connection request: the first send is cut after b bytes, then the process dies
		f.kind = F_SEND_SHORT; f.idx = 0; f.arg = k - (ENUM_KILLS - 24);
		p.set("kill_after_short", 1);
	} else {
		f.kind = F_KILL_BEFORE; f.idx = (uint64_t)k; f.arg = 0;
	}
	spec.faults.push_back(f);
}

static void gen(const char *prop, RunSpec &spec)
{
	int w = atoi(prop + 1);
	if (w == 3 && prop[3] == 'E') { gen_enum(spec); return; }
	Rng r = stream(spec.seed, "data");
	Plan &p = spec.plan;
	p.set("transport", r.below(2));
	int nc = w == 6 ? 1 : (int)r.range(1, 3);
	p.set("nclients", nc);
	// (16371, 20467, 24563: the ring of such a maximum fills its pages to the last word; their neighbours)
	static const int64_t MAXM[] = { 0, 512, 1000, 4096, 8192, 20000, 16371, 16369, 20467, 24563, 16372, 20466 };
	int64_t maxm = MAXM[r.below(12)];
	p.set("maxm", maxm);
	p.set("enforce_size", r.chance(1, 5) ? (int64_t)MAXM[1 + r.below(5)] : 0);
	p.set("rate_eintr", r.chance(1, 3) ? (int64_t)r.range(200, 2500) : 0);
	p.set("rate_short", (w == 2 || w == 3) && r.chance(1, 3) ? (int64_t)r.range(500, 6000) : 0);
	p.set("sndbuf", r.chance(1, 3) ? 2304 : 0);
	int64_t eff = std::max<int64_t>(maxm, (int64_t)sizeof(struct qb_ipc_connection_response));
	for (int k = 0; k < nc; k++) {
		char key[24];
		static const int64_t IDS[] = { 0, 1000, 1001, 65534 };
		snprintf(key, sizeof key, "uid%d", k); p.set(key, IDS[r.below(4)]);
		snprintf(key, sizeof key, "gid%d", k); p.set(key, IDS[r.below(4)]);
	}
	bool victim_dies = w == 3 && r.chance(1, 2);
	bool server_dies = w == 3 && !victim_dies;
	if (w == 3) {
		p.set("kill_who", victim_dies ? 1 : 0);          // 1: first client, 0: server
		p.set("rate_kill", r.chance(1, 2) ? (int64_t)r.range(150, 1500) : 0);
	}
	for (int k = 0; k < nc; k++) gen_client_script(r, p, 1 + k, eff, w, victim_dies && k == 0 && r.chance(1, 3));
	// server application behaviour
	int ns = w == 4 ? (int)r.range(0, 8) : (int)r.range(0, 4);
	for (int n = 0; n < ns; n++) {
		uint32_t k = (uint32_t)r.below(100);
		int64_t conn = r.chance(1, 2) ? -1 : (int64_t)r.below(4);
		if (k < 30) p.add(0, K_S_RATE, T_TICK, -1, r.range(1, 40), r.below(5));
		else if (k < 50) p.add(0, K_S_EVENT, T_TICK, -1, r.range(1, 40), std::min<int64_t>(pick_len(r, eff, RES_HDR), eff), r.below(3), r.range(1, 12));
		else if (w == 4) {
			if (k < 60) p.add(0, K_S_DISCONNECT, r.chance(1, 2) ? T_TICK : r.chance(1, 2) ? T_CREATED : T_MSG, conn, r.range(0, 20), 0, r.below(3));
			else if (k < 70) p.add(0, K_S_REF, r.chance(1, 2) ? T_CREATED : T_MSG, conn, r.range(0, 4), r.range(1, 20));
			else if (k < 78) {
				// walk the connection list / change the rate limit from a tick or from inside any callback
				static const int TR[5] = { T_TICK, T_CLOSED, T_DESTROYED, T_MSG, T_CREATED };
				int tr = TR[r.below(5)];
				int64_t nth = tr == T_TICK ? r.range(0, 20) : tr == T_MSG ? r.range(0, 8) : tr == T_CLOSED ? r.range(0, 1) : 0;
				if (r.chance(3, 4)) p.add(0, K_S_ITERATE, tr, -1, nth);
				else p.add(0, K_S_RATE, tr, -1, nth, r.below(5));
			}
			else if (k < 86) p.add(0, K_S_CLOSED_RETRY, T_CREATED, conn, 0, r.range(1, 3), r.below(4));
			else if (k < 92) p.add(0, K_S_DESTROY, T_TICK, -1, r.range(2, 40));
			else p.add(0, K_S_STATS, T_TICK, -1, r.range(1, 30), r.below(2));
		} else if (w == 3 && k >= 70 && k < 86) {
			// the application drops a connection on its own initiative (from connection_created, msg_process or a tick) while
			// clients - and the server - die around it: whoever is left must still clean everything up
			p.add(0, K_S_DISCONNECT, r.chance(1, 2) ? T_CREATED : r.chance(1, 2) ? T_MSG : T_TICK, conn, r.range(0, 12), 0, r.below(3));
		} else if (w == 3 && k < 70) {
			// the application keeps a reference of its own on a connection for a while: a dead client's connection then
			// lingers (shutting down, still listed) while other clients come and go
			p.add(0, K_S_REF, r.chance(1, 2) ? T_CREATED : T_MSG, conn, r.range(0, 4), r.range(1, 40));
		} else p.add(0, K_S_STATS, T_TICK, -1, r.range(1, 30), r.below(2));
	}
	if (w == 4 && nc >= 2 && r.chance(1, 4)) {
		// C04: one of the clients is turned away by the accept callback (its connection object lives and dies without ever
		// being listed), the others go through their histories as usual
		static const int64_t ERRS4[] = { EACCES, EPERM, EAGAIN };
		p.add(0, K_S_ACCEPT_POLICY, T_TICK, -1, 0, r.below((uint64_t)nc), ERRS4[r.below(3)], -1);
	}
	if (w == 5) {
		for (int k = 0; k < nc; k++) if (r.chance(1, 4)) {
			char key[24];
			snprintf(key, sizeof key, "plant%d", k); p.set(key, r.range(1, 2));
			snprintf(key, sizeof key, "plantf%d", k); p.set(key, r.below(6));
		}
		static const int64_t ERRS[] = { EACCES, EPERM, EAGAIN, ENOMEM, EBUSY, ENOENT };
		static const int64_t MODES[] = { 0600, 0640, 0660, 0666, 0700 };
		for (int k = 0; k < nc; k++) {
			int64_t refuse = r.chance(2, 5) ? ERRS[r.below(6)] : 0;
			int64_t set = r.chance(1, 2);
			p.add(0, K_S_ACCEPT_POLICY, T_TICK, -1, 0, k, refuse, set ? (MODES[r.below(5)] | ((int64_t)r.below(4) << 16) | ((int64_t)r.below(4) << 24)) : -1);
		}
	}
	if (w == 2 && r.chance(1, 6)) {
		// "event storm": a small notification socket, a burst of events to a client that is not reading them, the rate limit
		// switched off and on again while notifications are owed, and a client that then polls and reads at its own pace
		p.set("transport", 0);
		p.set("sndbuf", 2304);
		int64_t t0 = r.range(2, 6);
		p.add(0, K_S_EVENT, T_TICK, -1, t0, RES_HDR + (int64_t)r.below(40), 0, r.range(8, 20));
		if (r.chance(1, 2)) p.add(0, K_S_EVENT, T_TICK, -1, t0 + 1, RES_HDR + (int64_t)r.below(40), 0, r.range(4, 20));
		if (r.chance(2, 3)) p.add(0, K_S_RATE, T_TICK, -1, t0 + r.range(0, 2), r.chance(1, 2) ? 3 : 4);
		if (r.chance(2, 3)) p.add(0, K_S_RATE, T_TICK, -1, t0 + r.range(10, 40), r.below(3));
		p.add(1, K_C_SLEEP, (t0 + 2) * 5000 + r.range(0, 20000));
		int nrd = (int)r.range(6, 30);
		for (int n = 0; n < nrd; n++) {
			p.add(1, K_C_POLLFD);
			if (r.chance(3, 4)) p.add(1, K_C_EVENT_RECV, r.chance(1, 2) ? 0 : (int64_t)r.range(1, 100));
			if (r.chance(1, 4)) p.add(1, K_C_SLEEP, r.range(100, 30000));
		}
	}
	if ((w == 2 || w == 4) && r.chance(1, 8)) {
		// flow control switched on, the statistics read and cleared while it is on, flow control switched off again
		int64_t t0 = r.range(1, 20);
		p.add(0, K_S_RATE, T_TICK, -1, t0, r.chance(1, 2) ? 3 : 4);
		p.add(0, K_S_STATS, T_TICK, -1, t0 + r.range(1, 3), 1);
		p.add(0, K_S_RATE, T_TICK, -1, t0 + r.range(4, 8), r.below(3));
	}
	if ((w == 2 || w == 4 || w == 6) && r.chance(1, 8)) {
		// "request storm": the application is slow over one request while the client sends 60..300 more without waiting, at
		// every rate limit: the dispatcher then finds far more queued than it handles in one batch
		p.add(0, K_S_RATE, T_TICK, -1, 1, r.below(3));
		p.add(1, K_C_CONNECT, eff);
		p.add(1, K_C_SEND, 64 + (int64_t)r.below(64), -1, 0, RES_HDR, DF_SLOW);
		int nst = (int)r.range(60, 300);
		for (int n = 0; n < nst; n++) p.add(1, K_C_SEND, REQ_HDR + (r.chance(1, 4) ? (int64_t)r.below(48) : 0), -1, 0, RES_HDR, 0);
		p.add(1, K_C_SLEEP, r.range(1000, 200000));
		if (r.chance(1, 2)) p.add(1, K_C_SENDV_RECV, 128, 64, 0, RES_HDR, 0, 3000);
		if (r.chance(3, 4)) p.add(1, K_C_DISCONNECT);
	}
	if (server_dies && r.chance(1, 3)) {
		// the server tears a connection (or the whole service) down on its own initiative and dies part-way through
		if (r.chance(2, 3)) p.add(0, K_S_DISCONNECT, T_TICK, -1, r.range(2, 30), 0, r.below((uint64_t)nc), r.range(1, 60));
		else p.add(0, K_S_DESTROY, T_TICK, -1, r.range(2, 30), 0, 0, r.range(1, 120));
	}
	if (server_dies) p.add(0, K_S_DIE, r.chance(1, 2) ? T_TICK : r.chance(1, 2) ? T_MSG : T_CREATED, -1, r.range(0, 12));
	if (w == 5 && r.chance(1, 3)) {
		// a peer that is not libqb's client: raw socket, no SO_PASSCRED of its own, a valid connection request sent at once
		// (the credentials the accept callback sees are then whatever the service socket arranged for)
		int nh = (int)r.range(1, 4);
		for (int n = 0; n < nh; n++) {
			p.add(4, K_H_CONNECT, 1);
			p.add(4, K_H_SEND_PREFIX, 24, 0, r.chance(1, 4) ? (int64_t)r.range(1, 12) : 0, 0);
			p.add(4, K_H_SLEEP, r.range(100, 20000));
			p.add(4, K_H_CLOSE);
		}
	}
	if (w == 6) {
		int nh = (int)r.range(1, 10);
		for (int n = 0; n < nh; n++) {
			uint32_t k = (uint32_t)r.below(100);
			if (k < 50) {
				p.add(4, K_H_CONNECT);
				uint32_t y = (uint32_t)r.below(100);
				if (r.chance(1, 3)) {
					// a strict prefix of a request first, time for the server to take it in, then whatever follows
					// (usually more than the request has left)
					p.add(4, K_H_SEND_PREFIX, r.range(1, 23), 0, 0, 0);
					p.add(4, K_H_SLEEP, r.range(100, 20000));
					if (r.chance(1, 2)) y = 70 + (uint32_t)r.below(20);
				}
				if (y < 35) p.add(4, K_H_SEND_PREFIX, r.range(0, 24), 0, r.chance(1, 2) ? (int64_t)r.range(1, 5) : 0, r.chance(1, 2) ? (int64_t)r.range(10, 20000) : 0);
				else if (y < 70) p.add(4, K_H_SEND_FIELD, r.below(3), r.below(12));
				else if (y < 90) p.add(4, K_H_SEND_GARBAGE, r.chance(1, 2) ? (int64_t)r.range(1, 64) : (int64_t)r.range(64, 70000), (int64_t)r.u64() >> 1, r.chance(1, 3) ? (int64_t)r.range(1, 9) : 0, r.chance(1, 3) ? (int64_t)r.range(10, 5000) : 0);
				if (r.chance(1, 3)) { p.add(4, K_H_SHUTDOWN, r.below(3)); p.add(4, K_H_SLEEP, r.range(100, 300000)); }
				if (r.chance(1, 3)) p.add(4, K_H_SLEEP, r.range(100, 200000));
				p.add(4, K_H_CLOSE);
			} else {
				int nr = (int)r.range(1, 8);
				static const int64_t TINY[] = { 0, 1, 4, 8, 15, 16, 17, 24, 63 };
				int64_t hmax = r.chance(1, 4) ? -(TINY[r.below(9)] + 1) : maxm;
				for (int q = 0; q < nr; q++)
					p.add(4, K_H_RAW_REQUEST, r.chance(1, 3) ? (int64_t)r.below(32) : r.chance(1, 2) ? (int64_t)r.range(16, 600) : eff - 8 + (int64_t)r.below(4200), r.below(4), r.below(12), hmax);
				if (r.chance(1, 2)) p.add(4, K_H_CLOSE);
			}
		}
	}
}

// ------------------------------------------------------------------ run
static void run(const char *prop, const RunSpec &spec)
{
	which = atoi(prop + 1);
	const Plan &p = spec.plan;
	St st;
	Gp = &st;
	G.spec = &spec;
	g_raw_sent.clear();
	g_hostile_cc = NULL;
	G.transport = p.get("transport") ? 1 : 0;
	G.nclients = (int)std::max<int64_t>(0, std::min<int64_t>(3, p.get("nclients", 1)));
	static uint32_t run_ctr;
	char nm[64]; snprintf(nm, sizeof nm, "simk%d-%u", (int)getpid(), ++run_ctr);
	G.svc_name = nm;
	int base = SIM_PID_BASE + (worker_id() % 50) * 100;
	G.server_spid = base + 1;
	G.hostile_spid = base + 50;

	shim_reset();
	ShimCfg &c = shim_cfg();
	c.rate_eintr = (uint32_t)std::max<int64_t>(0, std::min<int64_t>(20000, p.get("rate_eintr")));
	c.rate_send_short = c.rate_recv_short = (uint32_t)std::max<int64_t>(0, std::min<int64_t>(20000, p.get("rate_short")));
	c.sndbuf_bytes = (int)std::max<int64_t>(0, std::min<int64_t>(1 << 20, p.get("sndbuf")));
	c.eagain_cost_ns = 20000;
	c.epoll_zero_cost_ns = 2000;      // a loop spinning on zero timeouts still makes the clock move
	c.epoll_zero_cost_adaptive = 1;
	c.shm_quota_bytes = 64 << 20;
	shim_random_seed(spec.seed);
	ShimHooks &h = shim_hooks();
	h.on_path = on_path;
	h.on_bad_close = on_bad_close;
	h.on_call = on_call;
	h.on_proc_death = on_proc_death;
	h.on_epoll_wait = [](int) { if (cur_spid() == G.server_spid) G.server_polls++; };
#ifdef IPC_ACC
	h.on_mmap = on_mmap;
	c.memcpy_stride_words = 64;
#endif
	proc_define(G.server_spid, 0, 0);
	proc_define(G.hostile_spid, 4242, 4242);
	for (int k = 0; k < G.nclients; k++) {
		char key[24];
		G.cl[k].idx = k; G.cl[k].spid = base + 10 + k;
		snprintf(key, sizeof key, "uid%d", k); G.cl[k].uid = (unsigned)p.get(key, 0);
		snprintf(key, sizeof key, "gid%d", k); G.cl[k].gid = (unsigned)p.get(key, 0);
		proc_define(G.cl[k].spid, G.cl[k].uid, G.cl[k].gid);
	}
	if (which == 3) {
		c.kill_after_short_send = (int)p.get("kill_after_short", 0);
		G.server_will_die = !p.get("kill_who", 1);
		c.kill_spid = p.get("kill_who", 1) ? G.cl[0].spid : G.server_spid;
		c.rate_kill = (uint32_t)std::max<int64_t>(0, std::min<int64_t>(5000, p.get("rate_kill")));
	}
	for (int k = 0; k < 3; k++) {
		char key[24];
		snprintf(key, sizeof key, "plant%d", k); G.plant[k] = (int)(((p.get(key, 0) % 3) + 3) % 3);
		snprintf(key, sizeof key, "plantf%d", k); G.plantf[k] = (int)(((p.get(key, 0) % 6) + 6) % 6);
	}
	// triggers and policies
	for (size_t i = 0; i < p.ops.size(); i++) {
		const Op &op = p.ops[i];
		if (op.task != 0) continue;
		if (op.kind == K_S_ACCEPT_POLICY) {
			int k = (int)(((op.a[3] % 3) + 3) % 3);
			G.accept_policy[k] = (int)std::max<int64_t>(0, std::min<int64_t>(130, op.a[4]));
			if (op.a[5] >= 0) {
				static const unsigned IDS[] = { 0, 1000, 1001, (unsigned)-1 };
				G.auth_set[k] = 1;
				G.auth_mode[k] = ((unsigned)op.a[5] & 0777) | 0600;
				G.auth_uid[k] = IDS[((op.a[5] >> 16) & 0xff) % 4];
				G.auth_gid[k] = IDS[((op.a[5] >> 24) & 0xff) % 4];
			}
			continue;
		}
		Trig t; t.kind = (int)(((op.a[0] % 6) + 6) % 6); t.conn = (int)op.a[1]; t.nth = op.a[2] < 0 ? 0 : op.a[2]; t.op = i;
		G.trigs.push_back(t);
	}

	SchedCfg sc;
#ifdef IPC_ACC
	sched_cfg_from_seed(spec.seed, 1 + G.nclients + (which == 6 ? 1 : 0), 20000, 250000, sc);
	if (sc.strategy == ST_RANDOM && sc.p_num > 1966) sc.p_num = 655;      // accesses are far more frequent than calls
#else
	sched_cfg_from_seed(spec.seed, 1 + G.nclients + (which == 6 ? 1 : 0), 3000, 60000, sc);
#endif
	sc.vtime_cap_ns = 600LL * 1000000000LL;
	if (p.get("force_seq")) sc.strategy = ST_SEQ;
	sched_begin(spec, sc);
	set_time_base(1000LL * 1000000000LL, 1700000000LL * 1000000000LL);
	task_create(G.server_spid, server_main, NULL, "server");
	for (int k = 0; k < 3; k++) {
		// task ids are fixed: 1..3 clients (unused ones finish at once), 4 hostile
		if (k < G.nclients) G.cl[k].task = task_create(G.cl[k].spid, client_main, &G.cl[k], "client");
		else { G.cl[k].done = true; task_create(base + 90 + k, [](void *) {}, NULL, "idle"); }
	}
	// C06: the hostile peer; C05: a hand-written peer that speaks the handshake without libqb's client (if the plan has one)
	G.hostile_task = which == 6;
	if (which == 5) for (size_t i = 0; i < p.ops.size(); i++) if (p.ops[i].task == 4) G.hostile_task = true;
	if (G.hostile_task) task_create(G.hostile_spid, hostile_main, NULL, "hostile");
#ifdef IPC_ACC
	g_access_hook = acc_hook;
#endif
	sched_run();
	g_access_hook = NULL;
	bool torn = failed();
	sched_end();
	{
		// A run that ended at the step cap after tens of thousands of steps during which the virtual clock never moved
		// is a process spinning in a loop that costs no time (every wait, every refused send and every empty poll of the
		// real code paths costs some). While the server spins like that it serves nobody: C02 (accepted messages are
		// delivered), C03 and C06 ("keeps serving other clients") say it must.
		Result &r = result();
		if ((which == 2 || which == 3 || which == 6) && r.verdict == V_INCONCLUSIVE && !strcmp(r.site, "step-cap-no-time-progress")) {
			r.verdict = V_VIOLATION;
			snprintf(r.cls, sizeof r.cls, "busy-loop-without-progress");
			snprintf(r.site, sizeof r.site, "qb_loop_run");
			snprintf(r.detail, sizeof r.detail, "the run burnt its last 25000+ scheduling steps without virtual time advancing: a process is spinning in a loop that never waits, and whoever depends on it is not served");
		}
	}
	if (!torn && which == 5) {
		for (size_t i = 0; i < G.victims.size() && !failed(); i++) {
			struct stat st; char buf[64]; memset(buf, 0, sizeof buf);
			int fd = open(G.victims[i].c_str(), O_RDONLY);
			ssize_t n = fd >= 0 ? read(fd, buf, sizeof buf) : -1;
			bool intact = n == 64 && fd >= 0 && fstat(fd, &st) == 0 && (st.st_mode & 0777) == 0600;
			for (int b = 0; intact && b < 64; b++) if (buf[b] != 'V') intact = false;
			if (fd >= 0) close(fd);
			if (!intact) VIOL(5, "planted-link-followed", "qb_sys_mmap_file_open", "a file outside the connection directory, reached through a symbolic link the peer planted there, was truncated / re-moded by the server");
		}
	}
	// what the peer planted is the peer's litter, not the server's
	for (std::set<std::string>::iterator it = G.planted.begin(); it != G.planted.end(); ++it) {
		unlink(it->c_str());
		std::string d = it->substr(0, it->rfind('/'));
		rmdir(d.c_str());
	}
	for (size_t i = 0; i < G.victims.size(); i++) unlink(G.victims[i].c_str());
	if (!torn && !G.server_dead && (which == 3 || which == 5 || which == 6)) {
		std::string ex;
		int n = shm_leftovers(G.server_spid, 0, false, ex);
		if (n > 0) VIOL(which, "shm-leftover", "qb_ipcs_disconnect", "%d file(s)/directories created by the server remain under /dev/shm after every connection is gone, e.g. %s", n, ex.c_str() + 9);
	}
	rm_leftovers(G.server_spid);
	set_nontrivial(G.n_msgs_ok >= 2 || (which != 2 && G.conns.size() >= 1 && handoffs() > 4));
	Gp = NULL;
}

#ifndef HARNESS_NAME
#define HARNESS_NAME "ipc_sim"
#endif
static const Harness H = {
	HARNESS_NAME, op_names, K_N, shim_fault_names, F_N, gen, run, init,
	"a run is one seeded (scripts, schedule, faults) triple: a server process (real qb_loop + qb_ipcs service, application layer driven by "
	"the plan), 1..3 client processes running scripts against qb_ipcc, optionally a hostile raw-socket process; tasks interleave at libc "
	"calls; non-trivial = at least two messages were delivered and verified (C02) or at least one connection was announced and the baton "
	"changed hands more than four times (others); distinct = distinct fingerprint of the (yield site, task switched to) sequence"
};

int main(int argc, char **argv) { return harness_main(argc, argv, &H); }
