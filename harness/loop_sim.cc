// The loop world: C08 (callbacks exactly as registered), C09 (timers never early, loop never
// oversleeps), C10 (no priority level starves). One task runs the real qb_loop on a real epoll
// instance with real pipes; the simulator owns time, the readiness batches, EINTR, external
// events (bytes arriving, peers closing, signals) and the operations issued from callbacks.
#define SIMK_NO_RENAME 1
#include "../simk/simk_rename.h"
#include "../simk/simk.h"
#include "../simk/sched.h"
#include "../simk/shim.h"
#include <map>
#include <deque>
#include <vector>
#include <string>
#include <algorithm>

extern "C" {
#include <qb/qbdefs.h>
#include <qb/qbloop.h>
}

using namespace simk;
typedef unsigned __int128 u128;

enum {
	K_JOB_ADD, K_JOB_DEL, K_TIMER_ADD, K_TIMER_DEL, K_TIMER_QUERY, K_FD_OPEN, K_FD_ADD, K_FD_MOD, K_FD_DEL, K_FD_CLOSE,
	K_FD_WRITE, K_FD_DRAIN, K_FD_PEER_CLOSE, K_FD_RETNEG, K_SIG_ADD, K_SIG_DEL, K_RAISE, K_STOP, K_BUSY, K_FD_CLOSE_RETNEG, K_SIG_MOD, K_NESTED, K_N
};
static const char *const op_names[K_N] = {
	"job_add", "job_del", "timer_add", "timer_del", "timer_query", "fd_open", "fd_add", "fd_mod", "fd_del", "fd_close",
	"fd_write", "fd_drain", "fd_peer_close", "fd_retneg", "sig_add", "sig_del", "raise", "stop", "busy", "fd_close_retneg", "sig_mod", "nested"
};
// Op layout: a[0] trigger (>= 0: object whose callback triggers it; -1: before the loop runs; -2: external event
// at virtual time a[1] ns; -3: asynchronously at the a[1]-th intercepted libc call), a[1] nth invocation / time /
// call index, a[2] target object, a[3..5] arguments.

enum { O_JOB, O_TIMER, O_FD, O_SIG };
static const int SIGS[4] = { SIGUSR1, SIGUSR2, SIGHUP, SIGWINCH };

static int which;      // 8, 9 or 10: which property's oracles may raise violations

// what a callback's data argument points to: the object and the generation of the registration it belongs to
struct Reg { int obj; uint32_t gen; };

struct Obj {
	int id = 0, type = 0;
	uint64_t invoked = 0;
	uint32_t gen = 0; Reg *cookie = NULL;    // current registration (timers, descriptors, signal handlers)
	// job
	int jprio = 0;
	std::deque<uint64_t> jpend;          // add sequence numbers of pending instances
	std::deque<int64_t> jsince;          // iteration at which each became pending
	std::deque<int64_t> jpass;           // pass of the loop (L.pass) at which each was added: it leaves the wait list when the next pass begins
	std::deque<int64_t> jdl;             // iteration by which each must have run
	int readd = 0;                       // C10: re-add this many copies on every invocation
	// timer
	qb_loop_timer_handle th = 0; bool nohandle = false; bool tpend = false; int tprio = 0;
	u128 expiry = 0; bool unrep = false; uint64_t dur = 0; int64_t first_iter_expired = -1; int64_t tdl = -1;
	bool rearm = false; uint64_t rearm_dur = 0;
	std::vector<qb_loop_timer_handle> stale;   // handles that fired or were deleted
	// fd
	int rfd = -1, wfd = -1; bool reg = false; int fprio = 0; int events = 0; int64_t bytes = 0; bool peer_closed = false;
	bool neg_pending = false; uint32_t neg_gen = 0; int neg_fd = -1;   // the callback closed its descriptor and will return a negative value
	bool retneg_armed = false, retneg_keep_open = false; int64_t ready_since = -1; int64_t fdl = -1; bool always_ready = false;
	bool fdl_at_poll = false;
	// qb_loop_poll_mod of an entry that is already queued leaves it in the queue of its old level and takes effect at the
	// next queueing: until its callback runs the model does not say which of the two levels holds it
	bool lvl_unknown = false; int oldprio = 0;
	bool salt = false;                   // signal handler: which of the two callback entry points is the registered one            // the descriptor joins its level's queue at the next poll: everything queued until then is ahead of it
	// signal handler
	qb_loop_signal_handle sh = NULL; bool sreg = false; int sprio = 0; int signo = 0; int must = 0, may = 0; int64_t s_since = -1; int64_t sdl = -1; bool sdl_at_poll = false; bool lvl_unknown_s = false; int oldsprio = 0;
};

struct St {
	const RunSpec *spec = NULL;
	std::deque<Reg> regs;                                      // stable addresses for the whole run
	bool in_sigop = false;                                     // inside qb_loop_signal_add/del: no asynchronous delivery
	std::vector<size_t> deferred_async;
	qb_loop_t *loop = NULL;
	bool use_default = false;            // name the loop as NULL ("the default loop") in every API call
	std::vector<Obj> objs;
	int nj = 0, nt = 0, nf = 0, ns = 0;
	std::multimap<std::pair<int, int64_t>, size_t> trig;      // (object, nth) -> op index
	std::vector<std::pair<int64_t, size_t> > ext;             // (time, op index), sorted
	size_t ext_next = 0;
	std::multimap<int64_t, size_t> atcall;                    // call index -> op index
	int64_t ncalls = 0;
	int64_t iter = 0, max_iter = 0;
	bool stopped = false, stop_by_plan = false, in_async = false;
	uint64_t addseq = 0;
	std::deque<std::pair<uint64_t, int> > fifo[3];            // per priority: (add seq, job obj) pending, in add order
	std::deque<int> sig_inflight;                             // deliveries written to the signal pipe, not yet read by the loop
	int sigpipe_rfd = -1;
	int64_t clock_res_ns = 1;
	bool eintr_just_fired = false; uint64_t clock_since_epoll = 0; int64_t pass = 0;
	// a second loop instance of the process, run for a few passes from inside a callback of the first (K_NESTED)
	qb_loop_t *loop2 = NULL; bool in_nested = false; int nest_obj = -1, nest_passes = 0, nest_left = 0;
	uint64_t callbacks = 0;
	// C10 bookkeeping per level
	int64_t disp_iter[3] = { 0, 0, 0 };       // dispatches in the current iteration
	int hist_old[3][3] = { { 0 } };           // had old work at start of iterations i-2, i-1, i
	int64_t hist_disp[3][3] = { { 0 } };
	int64_t opp[3] = { 0, 0, 0 };             // dispatch opportunities while all three levels had old work
	int64_t max_disp_per_iter = 0;
	int64_t jobs_pending_total = 0;
	int64_t cb_since_epoll = 0;               // callbacks dispatched since the loop last polled its descriptors
};
static St *Lp;
#define L (*Lp)

static int p_del_queued_timer, p_del_queued_fd, p_del_queued_job, p_del_queued_sig, p_self_del, p_readd_in_cb, p_stale_handle,
	p_slot_reuse_stale, p_fd_reuse, p_two_sig_then_del, p_retneg, p_retneg_open, p_close_retneg, p_number_reused_in_cb, p_default_loop, p_sig_mod, p_fd_mod_data, p_stop, p_throttle50, p_ms31, p_ms32, p_overflow, p_equal_expiry,
	p_timer_fired, p_nohandle, p_restart, p_sig_mod_pending, p_dup_add, p_adders, p_nested, p_job_del_foreign, p_long_run, p_eintr_epoll, p_eintr_retry, p_async_sig, p_hup, p_busy;

static void init(const char *prop)
{
	which = atoi(prop + 1);
	p_del_queued_timer = counter_id("probe", "delete_of_expired_queued_timer");
	p_del_queued_fd = counter_id("probe", "delete_of_queued_fd_entry");
	p_del_queued_job = counter_id("probe", "delete_of_queued_job");
	p_del_queued_sig = counter_id("probe", "delete_of_signal_with_queued_delivery");
	p_self_del = counter_id("probe", "callback_deletes_itself");
	p_readd_in_cb = counter_id("probe", "readd_in_own_callback");
	p_stale_handle = counter_id("probe", "stale_timer_handle_presented");
	p_slot_reuse_stale = counter_id("probe", "stale_handle_after_slot_reuse");
	p_fd_reuse = counter_id("probe", "fd_number_reused");
	p_two_sig_then_del = counter_id("probe", "two_queued_deliveries_then_delete");
	p_retneg = counter_id("probe", "fd_callback_returned_negative");
	p_retneg_open = counter_id("probe", "fd_callback_returned_negative_and_kept_the_descriptor_open");
	p_default_loop = counter_id("probe", "loop_named_as_NULL_default_loop");
	p_sig_mod = counter_id("probe", "signal_handler_modified");
	p_fd_mod_data = counter_id("probe", "poll_mod_with_new_callback_data");
	p_close_retneg = counter_id("probe", "fd_callback_closed_its_descriptor_then_returned_negative");
	p_number_reused_in_cb = counter_id("probe", "descriptor_number_reused_and_registered_inside_the_closing_callback");
	p_stop = counter_id("probe", "stop_from_callback");
	p_throttle50 = counter_id("probe", "job_throttle_50ms_taken");
	p_ms31 = counter_id("probe", "timer_ms_value_ge_2^31");
	p_ms32 = counter_id("probe", "timer_ms_value_ge_2^32");
	p_overflow = counter_id("probe", "timer_expiry_beyond_2^64");
	p_equal_expiry = counter_id("probe", "equal_expiries");
	p_timer_fired = counter_id("probe", "timer_dispatched");
	p_long_run = counter_id("probe", "run_longer_than_1000_iterations");
	p_eintr_epoll = counter_id("probe", "epoll_wait_eintr");
	p_nohandle = counter_id("probe", "timer_added_without_asking_for_a_handle");
	p_restart = counter_id("probe", "loop_run_again_after_a_stop_from_a_callback");
	p_sig_mod_pending = counter_id("probe", "signal_handler_moved_to_another_level_with_deliveries_on_their_way");
	p_dup_add = counter_id("probe", "second_add_of_a_watched_descriptor");
	p_adders = counter_id("probe", "timers_added_by_several_threads_at_once");
	p_nested = counter_id("probe", "second_loop_instance_run_from_a_callback");
	p_job_del_foreign = counter_id("probe", "job_del_naming_a_pending_timers_callback_and_data");
	p_eintr_retry = counter_id("stat", "epoll_wait_restarted_by_the_driver_after_eintr");
	p_async_sig = counter_id("probe", "signal_delivered_inside_loop_code");
	p_hup = counter_id("probe", "fd_peer_closed");
	p_busy = counter_id("probe", "busy_callback");
	counter_id("fault", "eintr"); counter_id("fault", "epoll_shuffle");
}

static inline u128 mono_now() { return (u128)(uint64_t)mono_base() + (u128)(uint64_t)now_ns(); }
static inline int64_t slack_ns() { return L.clock_res_ns; }

extern "C" struct qb_loop *qb_loop_default_get(void);      // lib/loop_int.h
// the loop as the API calls name it: the first loop created is also the default one, which NULL stands for
#define LP (L.use_default ? (qb_loop_t *)NULL : L.loop)
#define VIOL(prop, cls, site, ...) do { if (which == (prop) || (prop) == 0) fail(cls, site, __VA_ARGS__); } while (0)

// ------------------------------------------------------------------ model helpers
static int level_regs(int p)
{
	// upper bound of the number of items that can be queued at level p
	int n = (int)L.fifo[p].size();
	for (size_t i = 0; i < L.objs.size(); i++) {
		Obj &o = L.objs[i];
		if (o.type == O_TIMER && o.tpend && o.tprio == p) n++;
		if (o.type == O_FD && o.reg && (o.fprio == p || (o.lvl_unknown && o.oldprio == p))) n++;
		if (o.type == O_SIG && o.sreg && (o.sprio == p || (o.lvl_unknown_s && o.oldsprio == p))) n += o.must + o.may + 1;
	}
	if (p == QB_LOOP_HIGH) n++;      // the signal pipe
	return n;
}
static int64_t bound_iters(int p) { return 3 * ((level_regs(p) + 1 + 3) / 4 + 1) + 3; }
// an item that becomes pending now at level p is behind at most everything registered there: FIFO, 4 per turn,
// a turn at least every third iteration
static int64_t deadline(int p) { return L.iter + bound_iters(p) + 2; }
static void fd_mark_ready(struct Obj &o);

static void do_op(size_t oi, int from_obj);
static Reg *new_cookie(Obj &o)
{
	Reg r; r.obj = o.id; r.gen = ++o.gen;
	L.regs.push_back(r);
	o.cookie = &L.regs.back();
	return o.cookie;
}
static void fd_mark_ready(Obj &o)
{
	if (o.reg && o.ready_since < 0 && (o.bytes > 0 || o.peer_closed)) { o.ready_since = L.iter; o.fdl = deadline(o.fprio) + 1; o.fdl_at_poll = true; }
}

static void fire_triggers(Obj &o)
{
	std::pair<int, int64_t> key(o.id, (int64_t)o.invoked);
	std::vector<size_t> todo;
	for (auto it = L.trig.lower_bound(key); it != L.trig.end() && it->first == key; ++it) todo.push_back(it->second);
	std::sort(todo.begin(), todo.end());
	for (size_t k = 0; k < todo.size() && !failed(); k++) do_op(todo[k], o.id);
}

static void note_callback(int prio)
{
	L.callbacks++;
	// one iteration polls the descriptors once and dispatches at most four items per level: a loop that dispatches
	// hundreds of items without polling has stopped looking at its descriptors (and at the signal pipe)
	if (++L.cb_since_epoll == 400) {
		for (size_t i = 0; i < L.objs.size(); i++) {
			Obj &o = L.objs[i];
			if (o.type == O_FD && o.reg && (o.bytes > 0 || o.peer_closed))
				VIOL(which == 10 ? 10 : 8, "descriptors-not-polled", "qb_loop_run", "400 callbacks were dispatched without the loop polling its descriptors once, while descriptor object %d is registered and ready", o.id);
			if (o.type == O_SIG && o.sreg && o.must > 0)
				VIOL(which == 10 ? 10 : 8, "descriptors-not-polled", "qb_loop_run", "400 callbacks were dispatched without the loop polling its descriptors once, while a delivered signal waits for handler %d", o.id);
		}
	}
	if (L.cb_since_epoll == 20000 && !L.stopped) { qb_loop_stop(LP); L.stopped = true; }      // nothing to judge: end the run
	if (L.stopped && L.stop_by_plan) VIOL(8, "callback-after-stop", "qb_loop_run", "a callback ran after qb_loop_stop had been called from a callback");
	L.disp_iter[prio]++;
}


// ------------------------------------------------------------------ a second loop instance
static void nest_job(void *)
{
	if (--L.nest_left > 0) qb_loop_job_add(L.loop2, QB_LOOP_HIGH, NULL, nest_job);
	else qb_loop_stop(L.loop2);
}
static void run_nested()
{
	if (L.in_nested || L.stopped || !L.loop) return;
	if (!L.loop2) L.loop2 = qb_loop_create();
	if (!L.loop2) return;
	L.nest_left = L.nest_passes;
	if (qb_loop_job_add(L.loop2, QB_LOOP_HIGH, NULL, nest_job) != 0) return;
	L.in_nested = true;
	qb_loop_run(L.loop2);
	L.in_nested = false;
	count(p_nested);
}

// ------------------------------------------------------------------ callbacks handed to the loop
static void job_cb(void *data)
{
	Obj &o = *(Obj *)data;
	ev(300, o.id, L.iter);
	note_callback(o.jprio);
	if (o.jpend.empty()) {
		VIOL(8, "job-ran-without-registration", "qb_loop_job_add", "job %d invoked although no instance of it is pending (invoked %llu times)", o.id, (unsigned long long)o.invoked);
		return;
	}
	// FIFO among jobs of one priority
	std::deque<std::pair<uint64_t, int> > &q = L.fifo[o.jprio];
	if (!q.empty() && q.front().second != o.id)
		VIOL(8, "job-order", "qb_loop_run", "job %d ran before job %d which was added earlier at the same priority", o.id, q.front().second);
	for (size_t k = 0; k < q.size(); k++) if (q[k].second == o.id) { q.erase(q.begin() + (long)k); break; }
	o.jpend.pop_front(); o.jsince.pop_front(); o.jdl.pop_front(); o.jpass.pop_front();
	L.jobs_pending_total--;
	o.invoked++;
	for (int k = 0; k < o.readd && !L.stopped && L.fifo[o.jprio].size() < 48; k++) {
		if (qb_loop_job_add(LP, (enum qb_loop_priority)o.jprio, &o, job_cb) == 0) {
			o.jpend.push_back(++L.addseq); o.jsince.push_back(L.iter); o.jpass.push_back(L.pass);
			L.fifo[o.jprio].push_back(std::make_pair(L.addseq, o.id));
			o.jdl.push_back(deadline(o.jprio));
			L.jobs_pending_total++;
		}
	}
	fire_triggers(o);
	if (o.id == L.nest_obj) run_nested();
}

static void timer_add_model(Obj &o, int prio, uint64_t dur);

static void timer_cb(void *data)
{
	Reg *rg = (Reg *)data;
	Obj &o = L.objs[(size_t)rg->obj];
	ev(301, o.id, L.iter);
	note_callback(o.tprio);
	count(p_timer_fired);
	if (!o.tpend || rg->gen != o.gen) {
		VIOL(8, "timer-ran-without-registration", "qb_loop_timer_add", "timer %d fired although it is not pending (fired or deleted before)", o.id);
		return;
	}
	u128 now = mono_now();
	if (o.unrep || now < o.expiry) {
		// C09: never early. (A timer whose expiry is not representable in 64 bits can never be due.)
		unsigned long long early = o.unrep ? ~0ULL : (unsigned long long)(o.expiry - now);
		VIOL(9, "timer-early", "qb_loop_timer_add", "timer %d with duration %llu ns fired %llu ns before its expiry", o.id, (unsigned long long)o.dur, early);
	}
	if (!o.unrep) {
		// same priority: dispatch in order of expiry
		for (size_t i = 0; i < L.objs.size(); i++) {
			Obj &x = L.objs[i];
			if (x.type == O_TIMER && x.tpend && x.id != o.id && x.tprio == o.tprio && !x.unrep && x.expiry < o.expiry)
				VIOL(9, "timer-order", "qb_loop_run", "timer %d (expiry later) dispatched before timer %d of the same priority", o.id, x.id);
			if (x.type == O_TIMER && x.tpend && x.id != o.id && x.expiry == o.expiry) count(p_equal_expiry);
		}
		if (o.first_iter_expired >= 0 && L.iter > o.tdl)
			VIOL(9, "timer-late", "qb_loop_run", "timer %d dispatched %lld iterations after the loop first woke past its expiry (allowed %lld)",
			     o.id, (long long)(L.iter - o.first_iter_expired), (long long)(o.tdl - o.first_iter_expired));
	}
	o.tpend = false;
	if (!o.nohandle) o.stale.push_back(o.th);
	o.nohandle = false;
	o.invoked++;
	if (o.rearm && !L.stopped) {
		qb_loop_timer_handle h = 0;
		if (qb_loop_timer_add(LP, (enum qb_loop_priority)o.tprio, o.rearm_dur, new_cookie(o), timer_cb, &h) == 0) { o.th = h; timer_add_model(o, o.tprio, o.rearm_dur); }
	}
	fire_triggers(o);
}

// "its callback returns a negative value": any negative value
static const int32_t NEGS[4] = { -1, -2, -11, INT32_MIN };
static int32_t fd_cb(int32_t fd, int32_t revents, void *data)
{
	Reg *rg = (Reg *)data;
	Obj &o = L.objs[(size_t)rg->obj];
	ev(302, o.id, revents);
	note_callback(o.fprio);
	if (o.lvl_unknown) { if (o.oldprio != o.fprio) L.disp_iter[o.oldprio]++; o.lvl_unknown = false; }
	if (!o.reg || rg->gen != o.gen) {
		VIOL(8, "fd-callback-without-registration", "qb_loop_poll_add", "descriptor object %d called back (fd %d) although it was deleted or returned a negative value before", o.id, fd);
		return 0;
	}
	if (fd != o.rfd)
		VIOL(8, "fd-callback-wrong-fd", "qb_loop_poll_add", "descriptor object %d registered for another descriptor was called back", o.id);
	if (revents == 0 || (revents & ~(o.events | POLLERR | POLLHUP)) != 0)
		VIOL(8, "fd-callback-bad-revents", "qb_loop_poll_add", "descriptor object %d called with revents 0x%x, registered for 0x%x", o.id, revents, o.events);
	o.invoked++;
	o.ready_since = -1; fd_mark_ready(o);
	fire_triggers(o);
	if (o.neg_pending && o.neg_gen == rg->gen) {
		// the descriptor was closed earlier in this callback (and its number may have been taken by another
		// registration since): the negative return concerns this registration only
		o.neg_pending = false; o.retneg_armed = false;
		count(p_retneg);
		return NEGS[(size_t)(o.invoked + (uint64_t)o.id) % 4];
	}
	if (o.retneg_armed) {
		// the usual pattern: close the descriptor and tell the loop to forget it
		o.retneg_armed = false;
		count(p_retneg);
		// the negative return is about the registration being dispatched: if the callback deleted and re-added its
		// descriptor meanwhile, the new registration is a different one and closing its descriptor would be a misuse
		if (o.reg && rg->gen == o.gen) {
			o.reg = false;
			if (o.retneg_keep_open) { count(p_retneg_open); o.ready_since = -1; return NEGS[(size_t)(o.invoked + (uint64_t)o.id) % 4]; }
			if (o.rfd >= 0) { close(o.rfd); o.rfd = -1; }
			if (o.wfd >= 0) { close(o.wfd); o.wfd = -1; }
			o.bytes = 0; o.peer_closed = false; o.ready_since = -1;
			return NEGS[(size_t)(o.invoked + (uint64_t)o.id) % 4];
		}
	}
	// any value that is not negative means "keep watching"
	static const int32_t KEEP[4] = { 0, 0, 1, INT32_MAX };
	return KEEP[(size_t)(o.invoked + (uint64_t)o.id) % 4];
}

static int32_t sig_cb_common(int32_t sig, void *data, bool alt);
// two entry points, so that qb_loop_signal_mod() can be seen to install the function it was given
static int32_t sig_cb(int32_t sig, void *data) { return sig_cb_common(sig, data, false); }
static int32_t sig_cb_alt(int32_t sig, void *data) { return sig_cb_common(sig, data, true); }
static int32_t sig_cb_common(int32_t sig, void *data, bool alt)
{
	Reg *rg = (Reg *)data;
	Obj &o = L.objs[(size_t)rg->obj];
	if (o.sreg && rg->gen == o.gen && alt != o.salt)
		VIOL(8, "signal-callback-wrong-function", "qb_loop_signal_mod", "handler %d was called through the function registered before qb_loop_signal_mod() replaced it", o.id);
	ev(303, o.id, sig);
	note_callback(o.sprio);
	if (o.lvl_unknown_s && o.oldsprio != o.sprio) L.disp_iter[o.oldsprio]++;
	if (L.in_async) VIOL(8, "signal-callback-in-handler", "qb_loop_signal_add", "signal callback %d invoked from the asynchronous handler", o.id);
	if (!o.sreg || rg->gen != o.gen) {
		VIOL(8, "signal-callback-after-delete", "qb_loop_signal_del", "signal handler object %d invoked although it was deleted (qb_loop_signal_del returned 0)", o.id);
		return 0;
	}
	if (sig != o.signo) VIOL(8, "signal-callback-wrong-signal", "qb_loop_signal_add", "handler %d for signal %d invoked with %d", o.id, o.signo, sig);
	if (o.must > 0) o.must--;
	else if (o.may > 0) o.may--;
	else VIOL(8, "signal-callback-without-delivery", "qb_loop_signal_add", "signal handler %d invoked more often than signal %d was delivered", o.id, sig);
	if (o.must == 0) { o.s_since = -1; o.sdl = -1; }
	if (o.must == 0 && o.may == 0) o.lvl_unknown_s = false;
	o.invoked++;
	fire_triggers(o);
	return 0;
}

// ------------------------------------------------------------------ operations
static void timer_add_model(Obj &o, int prio, uint64_t dur)
{
	o.tpend = true; o.tprio = prio; o.dur = dur;
	u128 e = mono_now() + (u128)dur;
	o.unrep = (e >> 64) != 0;
	o.expiry = e;
	o.first_iter_expired = -1; o.tdl = -1;
	if (o.unrep) count(p_overflow);
	uint64_t ms = dur / 1000000ULL;
	if (ms >= (1ULL << 31)) count(p_ms31);
	if (ms >= (1ULL << 32)) count(p_ms32);
}

static void raise_signal(int si)
{
	// only when somebody listens: the default action of these signals kills the process
	bool any = false;
	for (size_t i = 0; i < L.objs.size(); i++) {
		Obj &o = L.objs[i];
		if (o.type == O_SIG && o.sreg && o.signo == SIGS[si]) any = true;
	}
	if (!any) return;
	for (size_t i = 0; i < L.objs.size(); i++) {
		Obj &o = L.objs[i];
		if (o.type == O_SIG && o.sreg && o.signo == SIGS[si]) {
			o.must++;
			if (o.s_since < 0) o.s_since = L.iter;
			// one delivery leaves the pipe per iteration, then the clone queues at the handler's level
			int64_t d = deadline(o.sprio) + (int64_t)L.sig_inflight.size() + 2;
			if (d > o.sdl) o.sdl = d;
		}
	}
	L.sig_inflight.push_back(si);
	bool was = L.in_async;
	L.in_async = true;
	raise(SIGS[si]);
	L.in_async = was;
}

static void do_op(size_t oi, int from_obj)
{
	const Op &op = L.spec->plan.ops[oi];
	int n = (int)L.objs.size();
	if (n == 0) return;
	int tgt = (int)(((op.a[2] % n) + n) % n);
	Obj &o = L.objs[tgt];
	int prio = (int)(((op.a[3] % 3) + 3) % 3);
	ev(310 + (uint32_t)op.kind, tgt, op.a[3]);
	switch (op.kind) {
	case K_JOB_ADD: {
		if (o.type != O_JOB || L.stopped) break;
		if (!o.jpend.empty() && o.jprio != prio) prio = o.jprio;     // one priority per job object keeps the FIFO oracle simple
		int r = qb_loop_job_add(LP, (enum qb_loop_priority)prio, &o, job_cb);
		if (r != 0) { VIOL(8, "job-add-failed", "qb_loop_job_add", "qb_loop_job_add returned %d", r); break; }
		o.jprio = prio;
		o.jpend.push_back(++L.addseq); o.jsince.push_back(L.iter); o.jpass.push_back(L.pass);
		L.fifo[prio].push_back(std::make_pair(L.addseq, o.id));
		o.jdl.push_back(deadline(prio));
		L.jobs_pending_total++;
		if (from_obj == tgt) count(p_readd_in_cb);
		break; }
	case K_JOB_DEL: {
		if (o.type == O_TIMER && o.tpend && o.cookie) {
			// a job that was never added, named by the function and data of a pending (perhaps expired and queued) timer:
			// there is no such job, and the timer is none of its business
			int rj = qb_loop_job_del(LP, (enum qb_loop_priority)o.tprio, o.cookie, timer_cb);
			count(p_job_del_foreign);
			if (rj == 0) VIOL(8, "delete-of-nothing-succeeded", "qb_loop_job_del", "qb_loop_job_del naming the callback and data of pending timer %d returned 0 although no such job was ever added", o.id);
			break;
		}
		if (o.type != O_JOB) break;
		bool pend = !o.jpend.empty();
		bool queued = pend && o.jpass.front() < L.pass;
		int r = qb_loop_job_del(LP, (enum qb_loop_priority)o.jprio, &o, job_cb);
		if (pend) {
			if (r != 0) { VIOL(8, "delete-refused", "qb_loop_job_del", "qb_loop_job_del of pending job %d returned %d", o.id, r); break; }
			if (queued) count(p_del_queued_job);
			// the library removes the first matching instance it finds (waiting list first, then the queued ones);
			// which one it was does not matter to the model except for FIFO bookkeeping: drop the newest not-yet-queued
			// instance if there is one, else the oldest
			size_t victim = 0;
			for (size_t k = 0; k < o.jpass.size(); k++) if (o.jpass[k] >= L.pass) { victim = k; break; }
			uint64_t seq = o.jpend[victim];
			o.jpend.erase(o.jpend.begin() + (long)victim); o.jsince.erase(o.jsince.begin() + (long)victim); o.jdl.erase(o.jdl.begin() + (long)victim); o.jpass.erase(o.jpass.begin() + (long)victim);
			std::deque<std::pair<uint64_t, int> > &q = L.fifo[o.jprio];
			for (size_t k = 0; k < q.size(); k++) if (q[k].first == seq) { q.erase(q.begin() + (long)k); break; }
			L.jobs_pending_total--;
		} else if (r == 0) {
			VIOL(8, "delete-of-nothing-succeeded", "qb_loop_job_del", "qb_loop_job_del of job %d returned 0 although no instance is pending", o.id);
		}
		break; }
	case K_TIMER_ADD: {
		if (o.type != O_TIMER || o.tpend || L.stopped) break;
		uint64_t dur = (uint64_t)op.a[4];
		// durations whose millisecond value needs more than 30 bits are C09's subject (timeout arithmetic), keep them out of C08/C10
		if (which != 9) dur %= (1ULL << 30) * 1000000ULL;
		qb_loop_timer_handle h = 0;
		// "timer_handle_out: handle to delete the timer if needed": one timer in eleven is added without asking for one
		o.nohandle = ((dur >> 3) % 11) == 3;
		if (o.nohandle) count(p_nohandle);
		int r = qb_loop_timer_add(LP, (enum qb_loop_priority)prio, dur, new_cookie(o), timer_cb, o.nohandle ? NULL : &h);
		if (r != 0) { VIOL(0, "timer-add-failed", "qb_loop_timer_add", "qb_loop_timer_add(%llu ns) returned %d", (unsigned long long)dur, r); break; }
		o.th = h;
		timer_add_model(o, prio, dur);
		if (from_obj == tgt) count(p_readd_in_cb);
		break; }
	case K_TIMER_DEL: {
		if (o.type != O_TIMER) break;
		if (o.tpend && o.nohandle) break;           // nothing to name it by
		qb_loop_timer_handle h = o.th;
		bool use_stale = !o.tpend;
		if (use_stale && !o.stale.empty()) h = o.stale[(size_t)((uint64_t)op.a[3] % o.stale.size())];
		if (use_stale) {
			count(p_stale_handle);
			// was the slot taken by somebody else meanwhile?
			for (size_t i = 0; i < L.objs.size(); i++)
				if (L.objs[i].type == O_TIMER && L.objs[i].tpend && (L.objs[i].th & 0xffffffffULL) == (h & 0xffffffffULL) && L.objs[i].id != o.id) count(p_slot_reuse_stale);
		}
		bool queued = o.tpend && !o.unrep && o.first_iter_expired >= 0;
		int r = qb_loop_timer_del(LP, h);
		if (o.tpend) {
			if (r != 0) { VIOL(8, "delete-refused", "qb_loop_timer_del", "qb_loop_timer_del of pending timer %d returned %d", o.id, r); break; }
			if (queued) count(p_del_queued_timer);
			if (from_obj == tgt) count(p_self_del);
			o.tpend = false;
			o.stale.push_back(h);
		} else if (r == 0 && h != 0) {
			VIOL(8, "stale-handle-accepted", "qb_loop_timer_del", "qb_loop_timer_del accepted the stale handle of timer %d (already fired or deleted)", o.id);
		}
		break; }
	case K_TIMER_QUERY: {
		if (o.type != O_TIMER) break;
		if (o.tpend && o.nohandle) break;
		qb_loop_timer_handle h = o.th;
		if (!o.tpend && !o.stale.empty()) h = o.stale[(size_t)((uint64_t)op.a[3] % o.stale.size())];
		if (h == 0) break;
		uint64_t rem = qb_loop_timer_expire_time_remaining(LP, h);
		int run = qb_loop_timer_is_running(LP, h);
		u128 now = mono_now();
		ev(340, (int64_t)(rem != 0), run);
		if (o.tpend && !o.unrep && now < o.expiry) {
			if (rem == 0 || !run) VIOL(9, "query-says-not-running", "qb_loop_timer_expire_time_remaining", "timer %d is pending with %llu ns to go but remaining=%llu is_running=%d", o.id, (unsigned long long)(o.expiry - now), (unsigned long long)rem, run);
			else if ((u128)rem > o.expiry - now) VIOL(9, "query-remaining-too-large", "qb_loop_timer_expire_time_remaining", "timer %d: remaining %llu ns exceeds the true %llu ns", o.id, (unsigned long long)rem, (unsigned long long)(o.expiry - now));
		} else if (!o.tpend) {
			if (rem != 0 || run) VIOL(9, "query-says-running", "qb_loop_timer_expire_time_remaining", "timer %d was dispatched or deleted but remaining=%llu is_running=%d", o.id, (unsigned long long)rem, run);
		}
		break; }
	case K_FD_OPEN: {
		if (o.type != O_FD || o.rfd >= 0) break;
		int pf[2];
		if (pipe2(pf, O_NONBLOCK | O_CLOEXEC) != 0) break;
		o.rfd = pf[0]; o.wfd = pf[1]; o.bytes = 0; o.peer_closed = false; o.reg = false; o.ready_since = -1;
		for (size_t i = 0; i < L.objs.size(); i++) (void)i;
		break; }
	case K_FD_ADD: {
		if (o.type == O_FD && o.rfd >= 0 && o.reg && !L.stopped && (op.a[4] & 1)) {
			// a second add of a descriptor that is already watched: the kernel refuses it (-EEXIST) and the registration
			// that exists is none the worse for it (the data handed over here must never reach a callback)
			Reg rr; rr.obj = o.id; rr.gen = 0x7ffffff0; L.regs.push_back(rr);
			int r2 = qb_loop_poll_add(LP, (enum qb_loop_priority)prio, o.rfd, POLLIN, &L.regs.back(), fd_cb);
			count(p_dup_add);
			ev(330, o.id, r2);
			break;
		}
		if (o.type != O_FD || o.rfd < 0 || o.reg || L.stopped) break;
		int r = qb_loop_poll_add(LP, (enum qb_loop_priority)prio, o.rfd, POLLIN, new_cookie(o), fd_cb);
		if (r != 0) { VIOL(8, "poll-add-failed", "qb_loop_poll_add", "qb_loop_poll_add(fd) returned %d", r); break; }
		o.reg = true; o.fprio = prio; o.events = POLLIN; o.lvl_unknown = false;
		o.ready_since = -1; fd_mark_ready(o);
		if (from_obj >= 0 && L.objs[(size_t)from_obj].neg_pending && L.objs[(size_t)from_obj].neg_fd == o.rfd) count(p_number_reused_in_cb);
		break; }
	case K_FD_MOD: {
		if (o.type != O_FD || !o.reg) break;
		int evs = (op.a[4] & 1) ? (POLLIN | POLLPRI) : POLLIN;
		// half of the modifications also hand over new callback data: from then on every callback must carry it
		bool newdata = (op.a[4] & 2) != 0;
		if (newdata) { new_cookie(o); count(p_fd_mod_data); }
		int r = qb_loop_poll_mod(LP, (enum qb_loop_priority)prio, o.rfd, evs, o.cookie, fd_cb);
		if (r != 0) { VIOL(8, "poll-mod-failed", "qb_loop_poll_mod", "qb_loop_poll_mod of registered descriptor object %d returned %d", o.id, r); break; }
		if (o.ready_since >= 0 && prio != o.fprio) {
			// possibly queued already: it then stays where it is (old level, old deadline); otherwise it queues at the new one
			if (!o.lvl_unknown) { o.lvl_unknown = true; o.oldprio = o.fprio; }
			int64_t d = deadline(prio) + 1; if (d > o.fdl) o.fdl = d;
		}
		o.fprio = prio; o.events = evs;
		break; }
	case K_FD_DEL: {
		if (o.type != O_FD || o.rfd < 0) break;
		int r = qb_loop_poll_del(LP, o.rfd);
		if (o.reg) {
			if (r != 0) { VIOL(8, "delete-refused", "qb_loop_poll_del", "qb_loop_poll_del of registered descriptor object %d returned %d", o.id, r); break; }
			if (o.ready_since >= 0 && o.ready_since < L.iter) count(p_del_queued_fd);
			if (from_obj == tgt) count(p_self_del);
			o.reg = false; o.ready_since = -1; o.lvl_unknown = false;
		}
		break; }
	case K_FD_CLOSE: {
		if (o.type != O_FD || o.rfd < 0 || o.reg) break;       // legal use: delete first (or return a negative value)
		close(o.rfd); if (o.wfd >= 0) close(o.wfd);
		o.rfd = o.wfd = -1; o.bytes = 0; o.peer_closed = false;
		count(p_fd_reuse);
		break; }
	case K_FD_WRITE: {
		if (o.type != O_FD || o.wfd < 0) break;
		char b[8] = { 1, 2, 3, 4, 5, 6, 7, 8 };
		int nb = (int)(1 + ((uint64_t)op.a[3] % 8));
		if (o.bytes > 32000) break;
		if (write(o.wfd, b, (size_t)nb) == nb) { o.bytes += nb; fd_mark_ready(o); }
		break; }
	case K_FD_DRAIN: {
		if (o.type != O_FD || o.rfd < 0) break;
		char b[4096];
		while (read(o.rfd, b, sizeof b) > 0) {}
		o.bytes = 0;
		if (!o.peer_closed) o.ready_since = -1;
		break; }
	case K_FD_PEER_CLOSE: {
		if (o.type != O_FD || o.wfd < 0) break;
		close(o.wfd); o.wfd = -1; o.peer_closed = true;
		fd_mark_ready(o);
		count(p_hup);
		break; }
	case K_FD_RETNEG:
		if (o.type != O_FD || !o.reg || from_obj != tgt) break;
		o.retneg_armed = true;
		o.retneg_keep_open = (op.a[3] & 1) != 0;     // "stop watching, but the descriptor stays open" is just as legal
		break;
	case K_FD_CLOSE_RETNEG:
		// the other usual pattern: close first, do more work (which may open and register descriptors that get the
		// number just freed), then return a negative value
		if (o.type != O_FD || !o.reg || from_obj != tgt || o.neg_pending || o.rfd < 0) break;
		o.neg_fd = o.rfd;
		close(o.rfd); if (o.wfd >= 0) close(o.wfd);
		o.rfd = o.wfd = -1; o.bytes = 0; o.peer_closed = false; o.ready_since = -1;
		o.reg = false; o.neg_pending = true; o.neg_gen = o.gen;
		count(p_close_retneg);
		break;
	case K_SIG_ADD: {
		if (o.type != O_SIG || o.sreg || L.stopped) break;
		int si = (int)(((op.a[4] % 4) + 4) % 4);
		qb_loop_signal_handle h = NULL;
		L.in_sigop = true;
		int r = qb_loop_signal_add(LP, (enum qb_loop_priority)prio, SIGS[si], new_cookie(o), sig_cb, &h);
		L.in_sigop = false;
		if (r != 0) { VIOL(8, "signal-add-failed", "qb_loop_signal_add", "qb_loop_signal_add returned %d", r); break; }
		o.sh = h; o.sreg = true; o.lvl_unknown_s = false; o.sprio = prio; o.signo = SIGS[si]; o.salt = false; o.must = 0; o.s_since = -1; o.sdl = -1;
		// a delivery that is still on its way through the pipe may or may not reach a handler added now
		o.may = 0;
		for (size_t k = 0; k < L.sig_inflight.size(); k++) if (L.sig_inflight[k] == si) o.may++;
		break; }
	case K_SIG_DEL: {
		if (o.type != O_SIG || !o.sreg) break;
		if (o.must + o.may >= 1) count(p_del_queued_sig);
		if (o.must >= 2) count(p_two_sig_then_del);
		if (from_obj == tgt) count(p_self_del);
		L.in_sigop = true;
		int r = qb_loop_signal_del(LP, o.sh);
		L.in_sigop = false;
		if (r != 0) { VIOL(8, "delete-refused", "qb_loop_signal_del", "qb_loop_signal_del returned %d", r); break; }
		o.sreg = false; o.must = o.may = 0; o.s_since = -1; o.sdl = -1; o.sh = NULL;
		break; }
	case K_SIG_MOD: {
		// change level and / or signal number of a handler that has no delivery on its way (a queued delivery keeps
		// the level and number it was queued with; keeping those cases out keeps the model simple)
		if (o.type != O_SIG || !o.sreg || L.stopped) break;
		int si = (int)(((op.a[4] % 4) + 4) % 4);
		bool pending = o.must || o.may;
		if (pending) {
			// deliveries on their way: only the level (and the function) change; what is queued stays where it is and is
			// dispatched from there, what is still in the pipe goes to the new level - and a later delete removes them all
			for (int k = 0; k < 4; k++) if (SIGS[k] == o.signo) si = k;
			if (!o.lvl_unknown_s) { o.lvl_unknown_s = true; o.oldsprio = o.sprio; }
			if (o.sdl >= 0) { int64_t d = deadline(prio) + (int64_t)L.sig_inflight.size() + 3; if (d > o.sdl) o.sdl = d; }
			count(p_sig_mod_pending);
		}
		bool busy = false;
		for (size_t k = 0; k < L.sig_inflight.size() && !pending; k++) if (SIGS[L.sig_inflight[k]] == o.signo || L.sig_inflight[k] == si) busy = true;
		if (busy) break;
		L.in_sigop = true;
		bool alt = pending ? o.salt : !o.salt;      // (a queued delivery is a copy and carries the function of its time)
		int r = qb_loop_signal_mod(LP, (enum qb_loop_priority)prio, SIGS[si], o.cookie, alt ? sig_cb_alt : sig_cb, o.sh);
		L.in_sigop = false;
		if (r != 0) { VIOL(8, "signal-mod-failed", "qb_loop_signal_mod", "qb_loop_signal_mod returned %d", r); break; }
		o.sprio = prio; o.signo = SIGS[si]; o.salt = alt;
		count(p_sig_mod);
		break; }
	case K_RAISE:
		if (L.stopped) break;
		raise_signal((int)(((op.a[3] % 4) + 4) % 4));
		break;
	case K_STOP:
		if (from_obj < 0) break;
		qb_loop_stop(LP);
		L.stopped = true; L.stop_by_plan = true;
		count(p_stop);
		break;
	case K_NESTED:
		// from now on every run of job object tgt also runs the helper loop for a[3] passes
		if (o.type != O_JOB || L.ns > 0) break;       // (the signal pipe is one per process: a second loop would take it over)
		L.nest_obj = tgt; L.nest_passes = (int)(1 + ((op.a[3] % 6) + 6) % 6);
		break;
	case K_BUSY: {
		int64_t d = op.a[3] < 0 ? 0 : op.a[3];
		if (d > 3600LL * 1000000000LL) d = 3600LL * 1000000000LL;
		advance_ns(d);
		count(p_busy);
		break; }
	}
}

// ------------------------------------------------------------------ simulator hooks
static bool model_has_work(bool &timer_pending_rep)
{
	bool work = false;
	timer_pending_rep = false;
	for (size_t i = 0; i < L.objs.size(); i++) {
		Obj &o = L.objs[i];
		if (o.type == O_JOB && !o.jpend.empty()) work = true;
		if (o.type == O_TIMER && o.tpend && !o.unrep) { work = true; timer_pending_rep = true; }
		if (o.type == O_FD && o.reg && (o.bytes > 0 || o.peer_closed)) work = true;
		if (o.type == O_SIG && o.sreg && o.must > 0) work = true;
	}
	return work;
}

static void c10_iteration_boundary()
{
	// called at every epoll_wait: closes iteration L.iter-1 and opens iteration L.iter
	for (int p = 0; p < 3; p++) {
		// old work: something at this level has been pending since at least two iterations ago
		bool old = false;
		for (size_t i = 0; i < L.objs.size() && !old; i++) {
			Obj &o = L.objs[i];
			if (o.type == O_JOB && o.jprio == p && !o.jpend.empty() && o.jsince.front() <= L.iter - 3) old = true;
			if (o.type == O_TIMER && o.tpend && o.tprio == p && o.first_iter_expired >= 0 && o.first_iter_expired <= L.iter - 3) old = true;
			if (o.type == O_FD && o.reg && !o.lvl_unknown && o.fprio == p && o.ready_since >= 0 && o.ready_since <= L.iter - 3) old = true;
		}
		// shift history (index 2 = the iteration that just ended)
		L.hist_old[p][0] = L.hist_old[p][1]; L.hist_old[p][1] = L.hist_old[p][2]; L.hist_old[p][2] = old;
		L.hist_disp[p][0] = L.hist_disp[p][1]; L.hist_disp[p][1] = L.hist_disp[p][2]; L.hist_disp[p][2] = L.disp_iter[p];
		if (L.disp_iter[p] > L.max_disp_per_iter) L.max_disp_per_iter = L.disp_iter[p];
	}
	if (L.iter >= 6) {
		for (int p = 0; p < 3; p++) {
			if (L.hist_old[p][0] && L.hist_old[p][1] && L.hist_old[p][2] &&
			    L.hist_disp[p][0] + L.hist_disp[p][1] + L.hist_disp[p][2] == 0)
				VIOL(10, "level-starved", "qb_loop_run", "priority level %d had work pending throughout iterations %lld..%lld and dispatched nothing",
				     p, (long long)(L.iter - 3), (long long)(L.iter - 1));
		}
		if (L.hist_old[0][2] && L.hist_old[1][2] && L.hist_old[2][2])
			for (int p = 0; p < 3; p++) if (L.disp_iter[p] > 0) L.opp[p]++;
	}
	for (int p = 0; p < 3; p++) L.disp_iter[p] = 0;
}

static void on_epoll_wait(int timeout)
{
	if (L.in_nested) return;        // the helper loop's own waits
	L.cb_since_epoll = 0;
	// a wait restarted after EINTR is not a new iteration, but it is a wait: how long it may last is judged like any other
	// (whether the driver restarted the wait itself or the loop went round its other sources first - it has then read the
	// clock - the interrupted wait has reported no descriptor: for the bounds counted in iterations the two are one)
	bool retry = L.eintr_just_fired;
	bool driver_retry = retry && L.clock_since_epoll == 0;
	if (retry) { L.eintr_just_fired = false; count(p_eintr_epoll); if (driver_retry) count(p_eintr_retry); }
	L.clock_since_epoll = 0;
	// (but the loop did go round its sources: jobs added before this point have left the wait list)
	if (!driver_retry) L.pass++;
	if (!retry) {
		c10_iteration_boundary();
		L.iter++;
		ev(350, timeout, L.iter);
		if (L.iter == 1001) count(p_long_run);
	}
	u128 now = mono_now();
	// timers the loop could have noticed by now
	bool any_rep = false; u128 E = 0;
	for (size_t i = 0; i < L.objs.size(); i++) {
		Obj &o = L.objs[i];
		if (o.type != O_TIMER || !o.tpend || o.unrep) continue;
		if (!any_rep || o.expiry < E) E = o.expiry;
		any_rep = true;
		if (!retry && o.first_iter_expired < 0 && o.expiry < now) { o.first_iter_expired = L.iter; o.tdl = deadline(o.tprio); }
	}
	for (size_t i = 0; i < L.objs.size(); i++) {
		Obj &o = L.objs[i];
		if (o.type == O_SIG && o.sreg && o.must > 0 && o.sdl >= 0 && o.sdl_at_poll) { o.sdl_at_poll = false; int64_t d = deadline(o.sprio) + (int64_t)L.sig_inflight.size() + 3; if (d > o.sdl) o.sdl = d; }
		if (o.type == O_FD && o.reg && o.ready_since >= 0 && o.fdl_at_poll) { o.fdl_at_poll = false; int64_t d = deadline(o.fprio) + 1; if (d > o.fdl) o.fdl = d; }
	}
	if (!retry && timeout == 50 && L.jobs_pending_total > 0) count(p_throttle50);
	if (any_rep && !L.stopped) {
		// C09: while a timer is pending the loop never blocks indefinitely and never past the earliest
		// expiry plus one clock tick (or the 50 ms pause when jobs were just queued), 1 ms rounding
		if (timeout < 0)
			VIOL(9, "blocks-forever-with-timer-pending", "qb_loop_run", "epoll_wait(timeout=%d) while a timer expiring in %llu ns is pending",
			     timeout, (unsigned long long)(E > now ? E - now : 0));
		else {
			u128 wake = now + (u128)timeout * 1000000;
			u128 lim = (E > now ? E : now) + (u128)slack_ns() + 1000000 + (L.jobs_pending_total > 0 ? (u128)50000000 : 0);
			if (wake > lim)
				VIOL(9, "sleeps-past-expiry", "qb_loop_run", "epoll_wait(timeout=%d ms) would sleep %llu ns past the earliest timer expiry (+slack)",
				     timeout, (unsigned long long)(wake - lim));
		}
	}
	if (retry) return;
	// liveness of everything else, in iterations
	if ((L.iter & 3) == 0 || L.iter >= L.max_iter) {
		for (size_t i = 0; i < L.objs.size() && !failed(); i++) {
			Obj &o = L.objs[i];
			// C10 judges the same per-item bounds under continuous load ("an item pending at any priority is dispatched
			// within a bounded number of loop iterations"): FIFO within a level, four items per turn, a turn at least
			// every third iteration
			if (which == 10) {
				if (o.type == O_JOB && !o.jpend.empty() && L.iter > o.jdl.front())
					VIOL(10, "item-starved", "qb_loop_run", "job %d has been pending for %lld iterations at level %d (bound %lld)", o.id, (long long)(L.iter - o.jsince.front()), o.jprio, (long long)(o.jdl.front() - o.jsince.front()));
				if (o.type == O_FD && o.reg && o.ready_since >= 0 && L.iter > o.fdl)
					VIOL(10, "item-starved", "qb_loop_run", "descriptor object %d has been ready for %lld iterations at level %d without its callback running (bound %lld)", o.id, (long long)(L.iter - o.ready_since), o.fprio, (long long)(o.fdl - o.ready_since));
				if (o.type == O_TIMER && o.tpend && !o.unrep && o.first_iter_expired >= 0 && L.iter > o.tdl)
					VIOL(10, "item-starved", "qb_loop_run", "timer %d at level %d not dispatched %lld iterations after the loop first woke past its expiry (bound %lld)", o.id, o.tprio, (long long)(L.iter - o.first_iter_expired), (long long)(o.tdl - o.first_iter_expired));
			}
			if (o.type == O_JOB && !o.jpend.empty() && L.iter > o.jdl.front())
				VIOL(8, "job-not-run", "qb_loop_run", "job %d has been pending for %lld iterations (allowed %lld)", o.id, (long long)(L.iter - o.jsince.front()), (long long)(o.jdl.front() - o.jsince.front()));
			if (o.type == O_FD && o.reg && o.ready_since >= 0 && L.iter > o.fdl)
				VIOL(8, "ready-fd-not-dispatched", "qb_loop_run", "descriptor object %d has been ready for %lld iterations without its callback running (allowed %lld)", o.id, (long long)(L.iter - o.ready_since), (long long)(o.fdl - o.ready_since));
			if (o.type == O_SIG && o.sreg && o.must > 0 && o.sdl >= 0 && L.iter > o.sdl)
				VIOL(8, "signal-not-dispatched", "qb_loop_run", "signal handler %d has %d undelivered signals after %lld iterations", o.id, o.must, (long long)(L.iter - o.s_since));
			if (o.type == O_TIMER && o.tpend && !o.unrep && o.first_iter_expired >= 0 && L.iter > o.tdl)
				VIOL(which == 9 ? 9 : 8, "timer-late", "qb_loop_run", "timer %d not dispatched %lld iterations after the loop first woke past its expiry (allowed %lld)", o.id, (long long)(L.iter - o.first_iter_expired), (long long)(o.tdl - o.first_iter_expired));
		}
	}
	if (L.iter >= L.max_iter && !L.stopped) { qb_loop_stop(LP); L.stopped = true; }
	if (!L.stopped) {
		bool tp;
		if (!model_has_work(tp) && L.ext_next >= L.ext.size()) { qb_loop_stop(LP); L.stopped = true; }
	}
}

static int64_t next_ext() { return L.ext_next < L.ext.size() ? L.ext[L.ext_next].first : -1; }
static void do_ext()
{
	if (L.ext_next >= L.ext.size()) return;
	size_t oi = L.ext[L.ext_next++].second;
	do_op(oi, -2);
}
static int on_blocked_forever()
{
	bool tp;
	bool work = model_has_work(tp);
	if (tp) VIOL(9, "blocks-forever-with-timer-pending", "qb_loop_run", "the loop blocked indefinitely although a timer is pending");
	else if (work) VIOL(8, "blocks-forever-with-work-pending", "qb_loop_run", "the loop blocked indefinitely although a job, ready descriptor or delivered signal is pending");
	qb_loop_stop(LP); L.stopped = true;
	return 0;
}
static void on_fault(int kind)
{
	if (kind == F_EINTR_WAIT) {
		L.eintr_just_fired = true;
		// the interrupted wait reported no descriptor (and read no signal): whatever was ready queues at the next one,
		// behind the jobs and timers the loop queues in between - its place in the line is decided then
		for (size_t i = 0; i < L.objs.size(); i++) {
			Obj &o = L.objs[i];
			if (o.type == O_FD && o.reg && o.ready_since >= 0) o.fdl_at_poll = true;
			if (o.type == O_SIG && o.sreg && o.must > 0 && o.sdl >= 0) o.sdl_at_poll = true;
		}
	}
	if (kind == F_EPOLL_SHUFFLE) {
		// a shortened batch legally postpones the report of some ready descriptors by one call
		for (size_t i = 0; i < L.objs.size(); i++) {
			Obj &o = L.objs[i];
			if (o.type == O_FD && o.fdl >= 0) o.fdl++;
			if (o.type == O_SIG && o.sdl >= 0) o.sdl++;
		}
	}
}
static void on_pipe(int rfd, int) { if (L.sigpipe_rfd < 0) L.sigpipe_rfd = rfd; }
static void on_call(uint32_t site)
{
	L.ncalls++;
	if (site == S_CLOCK) L.clock_since_epoll++;
	if (L.in_async || (L.atcall.empty() && L.deferred_async.empty())) return;
	auto it = L.atcall.find(L.ncalls);
	while (it != L.atcall.end() && it->first == L.ncalls) { L.deferred_async.push_back(it->second); ++it; }
	// while the library is changing signal dispositions (qb_loop_signal_add/del) a signal would meet SIG_DFL: wait
	if (L.in_sigop || !L.loop || L.stopped || L.deferred_async.empty()) return;
	std::vector<size_t> todo;
	todo.swap(L.deferred_async);
	for (size_t k = 0; k < todo.size(); k++) {
		const Op &op = L.spec->plan.ops[todo[k]];
		if (op.kind == K_RAISE) { count(p_async_sig); raise_signal((int)(((op.a[3] % 4) + 4) % 4)); }
	}
}
static void on_read(int fd, long n)
{
	// the library takes one delivery off the signal pipe
	if (fd == L.sigpipe_rfd && n == 4) {
		if (!L.sig_inflight.empty()) L.sig_inflight.pop_front();       // the pipe is FIFO
	}
}

// ------------------------------------------------------------------ generation
static const uint64_t SPECIAL_DUR[] = {
	0, 1, 999999, 1000000, 1000001, 49000000, 50000000, 51000000, 1000000000ULL, 3600ULL * 1000000000ULL,
	2147483647ULL * 1000000ULL, 2147483648ULL * 1000000ULL, 4294967295ULL * 1000000ULL, 4294967296ULL * 1000000ULL,
	1ULL << 63, ~0ULL - 5000000000ULL, ~0ULL
};

static int64_t pick_trigger(Rng &r, int nobj, int64_t &nth)
{
	uint32_t k = (uint32_t)r.below(100);
	if (k < 35 || nobj == 0) { nth = 0; return -1; }
	nth = (int64_t)r.below(3);
	return (int64_t)r.below((uint64_t)nobj);
}

static void gen(const char *prop, RunSpec &spec)
{
	int w = atoi(prop + 1);
	Rng r = stream(spec.seed, "data");
	Plan &p = spec.plan;
	static const int64_t RES[] = { 1, 1, 1000000, 4000000, 10000000 };
	p.set("clock_res_ns", RES[r.below(5)]);
	p.set("rate_eintr", r.chance(1, 3) ? (int64_t)r.range(300, 4000) : 0);
	p.set("default_loop", r.chance(1, 6));
	{ static const int64_t TICK[] = { 1000000, 4000000, 4000000, 10000000 }; p.set("coarse_tick_ns", TICK[r.below(4)]); }   // HZ 1000 / 250 / 100
	p.set("rate_shuffle", r.chance(1, 2) ? (int64_t)r.range(2000, 30000) : 0);
	// clock base: ordinary uptime, or close to 2^63 ns
	uint64_t base = r.chance(3, 4) ? (uint64_t)r.range(1, 1000000) * 1000000000ULL + r.below(1000000000)
				       : (1ULL << 63) - r.below(5000000000ULL);
	p.set("mono_base", (int64_t)base);
	if ((w == 9 || w == 8) && r.chance(1, 14)) {
		// several threads adding timers at the same time (run_adders); nothing else happens in such a run
		p.set("adders", r.range(2, 4)); p.set("adds_each", r.range(1, 6));
		p.set("njobs", 0); p.set("ntimers", 0); p.set("nfds", 0); p.set("nsigs", 0); p.set("max_iter", 5);
		return;
	}
	if (w == 10) {
		int nj = (int)r.range(0, 4), nt = (int)r.range(0, 3), nf = (int)r.range(0, 3);
		// now and then many always-ready descriptors, all at one level (more than one turn's worth)
		bool manyfd = r.chance(1, 5);
		int fdprio = (int)r.below(3);
		if (manyfd) nf = (int)r.range(4, 9);
		if (nj + nt + nf == 0) nj = 2;
		p.set("njobs", nj); p.set("ntimers", nt); p.set("nfds", nf); p.set("nsigs", 0);
		static const int64_t MI[] = { 50, 200, 1000, 5000, 30000, 100000 };
		p.set("max_iter", r.chance(1, 6) ? MI[4 + r.below(2)] : MI[r.below(4)]);
		int nobj = nj + nt + nf;
		// which levels carry continuous load: any non-empty subset, heavy at the top
		for (int k = 0; k < nj; k++) p.add(0, K_JOB_ADD, -1, 0, k, r.below(3), 0, (int64_t)r.range(1, 8));   // a[5] = copies re-added per run
		for (int k = 0; k < nt; k++) p.add(0, K_TIMER_ADD, -1, 0, nj + k, r.below(3), (int64_t)(r.chance(2, 3) ? 0 : r.below(3000)), 1);   // a[5]=1: re-arm
		for (int k = 0; k < nf; k++) {
			p.add(0, K_FD_OPEN, -1, 0, nj + nt + k);
			p.add(0, K_FD_WRITE, -1, 0, nj + nt + k, 3);
			p.add(0, K_FD_ADD, -1, 0, nj + nt + k, manyfd && r.chance(5, 6) ? fdprio : r.below(3));
		}
		// a short history before the steady state: a descriptor moved to another level, removed and registered again
		// while it may be queued (whatever happened before, the steady workload must be served fairly)
		if (nf > 0 && nobj > 1 && r.chance(1, 4)) {
			int nh = (int)r.range(1, 4);
			for (int k = 0; k < nh; k++) {
				int64_t nth; int64_t trg = pick_trigger(r, nobj, nth);
				int64_t f = nj + nt + (int64_t)r.below((uint64_t)nf);
				p.add(0, K_FD_MOD, trg, nth, f, r.below(3), r.below(4));
				if (r.chance(2, 3)) {
					p.add(0, K_FD_DEL, trg, nth, f);
					p.add(0, K_FD_ADD, trg, nth + (int64_t)r.below(2), f, r.below(3));
				}
			}
		}
		// now and then the process has a second loop instance which one of the HIGH-or-whatever jobs runs for a few passes
		// every time it is dispatched: what one loop does must not disturb the rotation of the other
		if (nj > 0 && r.chance(1, 6)) p.add(0, K_NESTED, -1, 0, (int64_t)r.below((uint64_t)nj), r.below(6));
		// finite bursts on top
		int nb = (int)r.range(0, 12);
		for (int k = 0; k < nb; k++) {
			int64_t nth; int64_t trg = pick_trigger(r, nobj, nth);
			if (nj) p.add(0, K_JOB_ADD, trg, nth * 50, (int64_t)r.below((uint64_t)nj), r.below(3), 0, 0);
		}
		return;
	}
	int nj = (int)r.range(0, 5), nt = (int)r.range(w == 9 ? 1 : 0, w == 9 ? 8 : 5), nf = (int)r.range(0, w == 9 ? 2 : 4), ns = (int)r.range(0, w == 9 ? 1 : 3);
	if (w == 9 && r.chance(1, 6)) nt = (int)r.range(8, 40);
	// C08, timer-heavy runs: many pending timers with adds and deletes, and a short re-arming "heartbeat" timer that keeps the
	// loop iterating, so that a timer left undispatched after its expiry is noticed by the iteration-based oracle
	bool theavy = w == 8 && r.chance(1, 6);
	if (theavy) nt = (int)r.range(7, 24);
	if (nj + nt + nf + ns == 0) nj = 1;
	p.set("njobs", nj); p.set("ntimers", nt); p.set("nfds", nf); p.set("nsigs", ns);
	p.set("max_iter", r.range(50, 600));
	p.set("restart", r.chance(1, 2));
	if (w == 8 && ns == 0 && nj > 0 && r.chance(1, 10)) p.add(0, K_NESTED, -1, 0, (int64_t)r.below((uint64_t)nj), r.below(6));
	int nobj = nj + nt + nf + ns;
	int nops = r.chance(1, 2) ? (int)r.range(2, 14) : (int)r.range(14, 70);
	// swarm weights
	uint32_t wj = nj ? 10 + (uint32_t)r.below(30) : 0, wt = nt ? 10 + (uint32_t)r.below(w == 9 ? 80 : 30) : 0,
		 wf = nf ? 10 + (uint32_t)r.below(30) : 0, ws = ns ? 5 + (uint32_t)r.below(25) : 0, wm = 4 + (uint32_t)r.below(8);
	bool small_durs = r.chance(1, 2);
	if (w == 8 && nj > 0 && ns > 0 && r.chance(1, 10)) {
		// a delivery caught between the poll that read it and the turn of its (lower) level: a job that runs in every
		// iteration raises the signal in one invocation and deletes (or modifies) the handler in the next
		int64_t j = (int64_t)r.below((uint64_t)nj), t = nj + nt + nf + (int64_t)r.below((uint64_t)ns), n = r.range(1, 4);
		int64_t si = (int64_t)r.below(2), hp = r.below(2);           // handler at LOW or MED, the job above it
		p.add(0, K_SIG_ADD, -1, 0, t, hp, si);
		p.add(0, K_JOB_ADD, -1, 0, j, hp + 1);
		for (int64_t k = 0; k <= n + 2; k++) p.add(0, K_JOB_ADD, j, k, j, hp + 1);
		p.add(0, K_RAISE, j, n, 0, si);
		if (r.chance(1, 3)) p.add(0, K_RAISE, j, n, 0, si);
		p.add(0, r.chance(3, 4) ? K_SIG_DEL : K_SIG_MOD, j, n + 1 + (int64_t)r.below(2), t, r.below(3), si);
	}
	if (theavy) {
		p.add(0, K_TIMER_ADD, -1, 0, nj + nt - 1, r.below(3), (int64_t)r.range(1000000, 8000000), 1);
		wt = 150; small_durs = true; if (nops < 20) nops += 20;
	}
	for (int k = 0; k < nops; k++) {
		int64_t nth; int64_t trg = pick_trigger(r, nobj, nth);
		uint32_t x = (uint32_t)r.below(wj + wt + wf + ws + wm);
		if (x < wj) {
			int64_t t = (int64_t)r.below((uint64_t)nj);
			if (r.chance(3, 4)) p.add(0, K_JOB_ADD, trg, nth, t, r.below(3));
			else p.add(0, K_JOB_DEL, trg, nth, t);
		} else if (x < wj + wt) {
			int64_t t = nj + (int64_t)r.below((uint64_t)nt);
			uint32_t y = (uint32_t)r.below(100);
			if (y < 55) {
				uint64_t d;
				uint32_t z = (uint32_t)r.below(100);
				if (z < (w == 9 ? 35u : 10u)) d = SPECIAL_DUR[r.below(sizeof SPECIAL_DUR / sizeof SPECIAL_DUR[0])];
				else if (z < 70 || small_durs) d = r.below(200000000ULL);
				else if (z < 90) d = r.below(100ULL * 1000000000ULL);
				else d = r.u64() >> r.below(40);
				p.add(0, K_TIMER_ADD, trg, nth, t, r.below(3), (int64_t)d);
			} else if (y < 78) p.add(0, K_TIMER_DEL, trg, nth, t, r.below(8));
			else if (y < 84 && w == 8) p.add(0, K_JOB_DEL, trg, nth, t);      // (a job delete naming this timer's callback and data)
			else p.add(0, K_TIMER_QUERY, trg, nth, t, r.below(8));
		} else if (x < wj + wt + wf) {
			int64_t t = nj + nt + (int64_t)r.below((uint64_t)nf);
			uint32_t y = (uint32_t)r.below(100);
			if (y < 18) { p.add(0, K_FD_OPEN, trg, nth, t); p.add(0, K_FD_ADD, trg, nth, t, r.below(3)); }
			else if (y < 28) p.add(0, K_FD_ADD, trg, nth, t, r.below(3), r.below(2));      // (a[4]&1: if it is watched already, add it again)
			else if (y < 48) { if (r.chance(1, 2)) p.add(0, K_FD_WRITE, trg, nth, t, r.below(8)); else p.add(0, K_FD_WRITE, -2, (int64_t)r.below(3000000000ULL), t, r.below(8)); }
			else if (y < 58) p.add(0, K_FD_DRAIN, trg, nth, t);
			else if (y < 66) p.add(0, K_FD_MOD, trg, nth, t, r.below(3), r.below(4));
			else if (y < 78) { p.add(0, K_FD_DEL, trg, nth, t); if (r.chance(1, 2)) { p.add(0, K_FD_CLOSE, trg, nth, t); if (r.chance(2, 3)) { p.add(0, K_FD_OPEN, trg, nth, t); p.add(0, K_FD_ADD, trg, nth, t, r.below(3)); } } }
			else if (y < 88 && r.chance(1, 3)) {
				p.add(0, K_FD_CLOSE_RETNEG, t, nth, t);
				if (r.chance(3, 4)) {
					int64_t t2 = r.chance(1, 4) ? t : nj + nt + (int64_t)r.below((uint64_t)nf);
					p.add(0, K_FD_OPEN, t, nth, t2); p.add(0, K_FD_ADD, t, nth, t2, r.below(3));
					if (r.chance(2, 3)) p.add(0, K_FD_WRITE, r.chance(1, 2) ? t : trg, nth + (int64_t)r.below(2), t2, r.below(8));
				}
			}
			else if (y < 88) { p.add(0, K_FD_RETNEG, t, nth, t, r.below(2)); if (r.chance(1, 2)) { int64_t t2 = nj + nt + (int64_t)r.below((uint64_t)nf); p.add(0, K_FD_OPEN, trg, nth + 1, t2); p.add(0, K_FD_ADD, trg, nth + 1, t2, r.below(3)); } }
			else { if (r.chance(1, 2)) p.add(0, K_FD_PEER_CLOSE, trg, nth, t); else p.add(0, K_FD_PEER_CLOSE, -2, (int64_t)r.below(3000000000ULL), t); }
		} else if (x < wj + wt + wf + ws) {
			int64_t t = nj + nt + nf + (int64_t)r.below((uint64_t)ns);
			uint32_t y = (uint32_t)r.below(100);
			int64_t si = (int64_t)r.below(r.chance(2, 3) ? 1 : 4);
			if (y < 30) p.add(0, K_SIG_ADD, trg, nth, t, r.below(3), si);
			else if (y < 44) p.add(0, K_SIG_DEL, trg, nth, t);
			else if (y < 50) p.add(0, K_SIG_MOD, trg, nth, t, r.below(3), si);
			else if (y < 70) p.add(0, K_RAISE, trg, nth, 0, si);
			else if (y < 85) { p.add(0, K_RAISE, trg, nth, 0, si); p.add(0, K_RAISE, trg, nth, 0, si); }
			else if (y < 93) p.add(0, K_RAISE, -2, (int64_t)r.below(3000000000ULL), 0, si);
			else p.add(0, K_RAISE, -3, (int64_t)r.range(20, 600), 0, si);
		} else {
			uint32_t y = (uint32_t)r.below(100);
			if (y < 25 && trg >= 0) p.add(0, K_STOP, trg, nth);
			else p.add(0, K_BUSY, trg, nth, 0, (int64_t)(r.chance(1, 2) ? r.below(3000000) : r.below(2000000000ULL)));
		}
	}
}

// ------------------------------------------------------------------ the task
static void loop_task(void *)
{
	const Plan &p = L.spec->plan;
	L.loop = qb_loop_create();
	if (!L.loop) { fail("loop-create-failed", "qb_loop_create", "qb_loop_create returned NULL"); return; }
	L.use_default = p.get("default_loop", 0) != 0 && qb_loop_default_get() == L.loop;
	if (L.use_default) count(p_default_loop);
	// setup operations
	for (size_t i = 0; i < p.ops.size() && !failed(); i++) {
		const Op &op = p.ops[i];
		if (op.a[0] == -1) {
			do_op(i, -1);
			// C10 behaviours ride on the setup ops
			int n = (int)L.objs.size();
			Obj &o = L.objs[(size_t)(((op.a[2] % n) + n) % n)];
			if (op.kind == K_JOB_ADD && op.a[5] > 0 && o.type == O_JOB) o.readd = (int)(op.a[5] > 8 ? 8 : op.a[5]);
			if (op.kind == K_TIMER_ADD && op.a[5] == 1 && o.type == O_TIMER) { o.rearm = true; o.rearm_dur = (uint64_t)op.a[4]; }
			if (op.kind == K_FD_ADD && which == 10 && o.type == O_FD) o.always_ready = true;
		}
	}
	if (!failed()) qb_loop_run(LP);
	// a loop stopped from a callback may be run again: whatever was queued when it stopped is still owed
	if (!failed() && L.stop_by_plan && p.get("restart", 0) != 0 && L.iter < L.max_iter) {
		count(p_restart);
		ev(361, L.iter, (int64_t)L.callbacks);
		L.stopped = false; L.stop_by_plan = false;
		qb_loop_run(LP);
	}
	ev(360, L.iter, (int64_t)L.callbacks);
	// after the loop: everything must have been dispatched unless the run was cut by stop / iteration cap
	if (!failed() && !L.stop_by_plan && L.iter < L.max_iter) {
		for (size_t i = 0; i < L.objs.size() && !failed(); i++) {
			Obj &o = L.objs[i];
			if (o.type == O_JOB && !o.jpend.empty()) VIOL(8, "job-not-run", "qb_loop_run", "loop went idle with job %d still pending", o.id);
			if (o.type == O_TIMER && o.tpend && !o.unrep) VIOL(which == 9 ? 9 : 8, "timer-not-run", "qb_loop_run", "loop went idle with timer %d still pending", o.id);
			if (o.type == O_SIG && o.sreg && o.must > 0) VIOL(8, "signal-not-dispatched", "qb_loop_run", "loop went idle with %d signal deliveries undispatched for handler %d", o.must, o.id);
		}
	}
	if (!failed() && which == 10 && L.iter >= 30) {
		if (!(L.opp[2] >= L.opp[1] && L.opp[1] >= L.opp[0]))
			VIOL(10, "priority-inversion", "qb_loop_run", "dispatch opportunities while all levels had work: HIGH %lld, MED %lld, LOW %lld",
			     (long long)L.opp[2], (long long)L.opp[1], (long long)L.opp[0]);
	}
	// tear down registrations that are still alive so that nothing is leaked into the next run
	L.stopped = true;
	for (size_t i = 0; i < L.objs.size(); i++) {
		Obj &o = L.objs[i];
		if (o.type == O_SIG && o.sreg) { qb_loop_signal_del(LP, o.sh); o.sreg = false; }
		if (o.type == O_FD && o.reg) { qb_loop_poll_del(LP, o.rfd); o.reg = false; }
	}
	if (L.loop2) { qb_loop_destroy(L.loop2); L.loop2 = NULL; }
	qb_loop_destroy(L.loop);
	L.loop = NULL;
}


// ------------------------------------------------------------------ C09/C08: several threads adding timers at once
// qb_loop_timer_add() is the one loop call the library makes safe for other threads (it takes the timer source's lock):
// N tasks add M far-off timers each, every libc call and lock operation inside being a possible switch point; afterwards
// every handle must name its own pending timer (distinct, running, deletable exactly once).  The loop itself does not run.
struct AddRec { qb_loop_timer_handle h; int rc; uint64_t dur; int task; };
static std::vector<AddRec> g_added;
static int g_adders_done, g_adders_n, g_adders_m;
static void adder_cb(void *) {}
static void adder_task(void *arg)
{
	int me = (int)(intptr_t)arg;
	for (int k = 0; k < g_adders_m && !failed(); k++) {
		AddRec a; a.h = 0; a.task = me;
		a.dur = (uint64_t)(3600 + me * 100 + k) * 1000000000ULL;
		a.rc = qb_loop_timer_add(L.loop, (enum qb_loop_priority)((me + k) % 3), a.dur, &g_added, adder_cb, &a.h);
		g_added.push_back(a);
		yield(Y_OP, 700 + (uint32_t)me);
	}
	g_adders_done++;
}
static bool adders_all_done(void *) { return g_adders_done >= g_adders_n; }
static void adders_check_task(void *)
{
	block_until(adders_all_done, NULL, -1, 799);
	if (failed()) return;
	for (size_t i = 0; i < g_added.size() && !failed(); i++) {
		const AddRec &a = g_added[i];
		if (a.rc != 0) { VIOL(0, "timer-add-failed", "qb_loop_timer_add", "qb_loop_timer_add from thread %d returned %d", a.task, a.rc); break; }
		for (size_t j = 0; j < i; j++)
			if (g_added[j].h == a.h) VIOL(9, "timer-handle-shared", "qb_loop_timer_add", "two timers added by threads %d and %d at the same time got the same handle", g_added[j].task, a.task);
		uint64_t rem = qb_loop_timer_expire_time_remaining(L.loop, a.h);
		int run = qb_loop_timer_is_running(L.loop, a.h);
		if (rem == 0 || !run)
			VIOL(9, "query-says-not-running", "qb_loop_timer_expire_time_remaining", "timer %zu (added by thread %d while other threads were adding theirs) is pending but remaining=%llu is_running=%d", i, a.task, (unsigned long long)rem, run);
		else if (rem > a.dur)
			VIOL(9, "query-remaining-too-large", "qb_loop_timer_expire_time_remaining", "timer %zu added by thread %d: remaining %llu ns exceeds its duration %llu ns", i, a.task, (unsigned long long)rem, (unsigned long long)a.dur);
	}
	for (size_t i = 0; i < g_added.size() && !failed(); i++) {
		int r = qb_loop_timer_del(L.loop, g_added[i].h);
		if (r != 0) VIOL(8, "delete-refused", "qb_loop_timer_del", "qb_loop_timer_del of pending timer %zu (added by thread %d while other threads were adding theirs) returned %d", i, g_added[i].task, r);
		else if (qb_loop_timer_del(L.loop, g_added[i].h) == 0) VIOL(8, "stale-handle-accepted", "qb_loop_timer_del", "timer %zu was deleted twice", i);
	}
	count(p_adders);
}
static void run_adders(const RunSpec &spec, int n, int m)
{
	g_added.clear(); g_adders_done = 0; g_adders_n = n; g_adders_m = m;
	shim_reset();
	shim_cfg().extra_yields = 1;
	shim_random_seed(spec.seed);
	SchedCfg sc;
	sched_cfg_from_seed(spec.seed, n + 1, 400, 400000, sc);
	sched_begin(spec, sc);
	set_time_base(spec.plan.get("mono_base", 1000000000), 1700000000LL * 1000000000LL);
	L.loop = qb_loop_create();
	if (L.loop) {
		for (int k = 0; k < n; k++) task_create(1, adder_task, (void *)(intptr_t)k, "adder");
		task_create(1, adders_check_task, NULL, "check");
		sched_run();
	}
	sched_end();
	if (L.loop) { qb_loop_destroy(L.loop); L.loop = NULL; }
	set_nontrivial(1);
	result().fingerprint = result().ev_hash;
}

static void run(const char *prop, const RunSpec &spec)
{
	which = atoi(prop + 1);
	const Plan &p = spec.plan;
	St st;
	Lp = &st;
	L.spec = &spec;
	if (p.get("adders", 0) > 0) {
		run_adders(spec, (int)std::max<int64_t>(2, std::min<int64_t>(4, p.get("adders"))), (int)std::max<int64_t>(1, std::min<int64_t>(8, p.get("adds_each", 3))));
		Lp = NULL;
		return;
	}
	L.nj = (int)std::max<int64_t>(0, std::min<int64_t>(16, p.get("njobs")));
	L.nt = (int)std::max<int64_t>(0, std::min<int64_t>(64, p.get("ntimers")));
	L.nf = (int)std::max<int64_t>(0, std::min<int64_t>(10, p.get("nfds")));
	L.ns = (int)std::max<int64_t>(0, std::min<int64_t>(8, p.get("nsigs")));
	if (L.nj + L.nt + L.nf + L.ns == 0) L.nj = 1;
	L.max_iter = std::max<int64_t>(5, std::min<int64_t>(200000, p.get("max_iter", 300)));
	int id = 0;
	for (int k = 0; k < L.nj; k++) { Obj o; o.id = id++; o.type = O_JOB; L.objs.push_back(o); }
	for (int k = 0; k < L.nt; k++) { Obj o; o.id = id++; o.type = O_TIMER; L.objs.push_back(o); }
	for (int k = 0; k < L.nf; k++) { Obj o; o.id = id++; o.type = O_FD; L.objs.push_back(o); }
	for (int k = 0; k < L.ns; k++) { Obj o; o.id = id++; o.type = O_SIG; L.objs.push_back(o); }
	int nobj = (int)L.objs.size();
	for (size_t i = 0; i < p.ops.size(); i++) {
		const Op &op = p.ops[i];
		if (op.a[0] >= 0) L.trig.insert(std::make_pair(std::make_pair((int)(op.a[0] % nobj), op.a[1] < 0 ? 0 : op.a[1]), i));
		else if (op.a[0] == -2) L.ext.push_back(std::make_pair(op.a[1] < 0 ? 0 : op.a[1], i));
		else if (op.a[0] == -3) L.atcall.insert(std::make_pair(op.a[1] < 1 ? 1 : op.a[1], i));
	}
	std::stable_sort(L.ext.begin(), L.ext.end(), [](const std::pair<int64_t, size_t> &a, const std::pair<int64_t, size_t> &b) { return a.first < b.first; });

	shim_reset();
	ShimCfg &c = shim_cfg();
	L.clock_res_ns = std::max<int64_t>(1, std::min<int64_t>(1000000000, p.get("clock_res_ns", 1)));
	c.clock_res_ns = L.clock_res_ns;
	c.rate_eintr = (uint32_t)std::max<int64_t>(0, std::min<int64_t>(20000, p.get("rate_eintr")));
	c.coarse_tick_ns = std::max<int64_t>(0, std::min<int64_t>(100000000, p.get("coarse_tick_ns", 4000000)));
	c.rate_epoll_shuffle = (uint32_t)std::max<int64_t>(0, std::min<int64_t>(60000, p.get("rate_shuffle")));
	c.epoll_zero_cost_ns = 1000;
	// the kernel's ready list is fair; a batch shortened several times in a row is not, and would make a ready
	// descriptor look like pending work the loop never got to see
	c.epoll_no_truncate = (which == 10);
	shim_random_seed(spec.seed);
	ShimHooks &h = shim_hooks();
	h.on_epoll_wait = on_epoll_wait;
	h.next_external_event_ns = next_ext;
	h.do_external_event = do_ext;
	h.on_blocked_forever = on_blocked_forever;
	h.on_fault = on_fault;
	h.on_call = on_call;
	h.on_read = on_read;
	h.on_pipe = on_pipe;

	SchedCfg sc;
	sched_cfg_from_seed(spec.seed, 1, 1000, 4000000, sc);
	sc.strategy = ST_SEQ;
	sched_begin(spec, sc);
	set_time_base(p.get("mono_base", 1000000000), 1700000000LL * 1000000000LL);
	task_create(1, loop_task, NULL, "loop");
	sched_run();
	bool torn = failed();
	sched_end();
	// leave no signal disposition behind
	for (int k = 0; k < 4; k++) signal(SIGS[k], SIG_DFL);
	for (size_t i = 0; i < L.objs.size(); i++) {
		Obj &o = L.objs[i];
		if (o.rfd >= 0) close(o.rfd);
		if (o.wfd >= 0) close(o.wfd);
	}
	(void)torn;
	set_nontrivial(L.callbacks >= 2 && L.iter >= 2);
	result().fingerprint = result().ev_hash;
	Lp = NULL;
}

#ifndef HARNESS_NAME
#define HARNESS_NAME "loop_sim"
#endif
static const Harness H = {
	HARNESS_NAME, op_names, K_N, shim_fault_names, F_N, gen, run, init,
	"a run is one seeded program for the event loop: registrations made before the loop starts, operations bound to the n-th "
	"invocation of a callback, external events at virtual times, asynchronous signals at libc-call indices, with seeded clock "
	"base/resolution and EINTR / shuffled-batch faults; non-trivial = at least two callbacks ran over at least two iterations; "
	"distinct = distinct hash of the event sequence (operations, callback invocations, epoll_wait timeouts)"
};

int main(int argc, char **argv) { return harness_main(argc, argv, &H); }
