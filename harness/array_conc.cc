// C19: 1..4 tasks share one growable array (qb_array_t).
// Every load/store array.c makes to the array header and to its bin pointer table, and every
// lock call, is a scheduling point; the seeded scheduler decides the interleaving; realloc is
// told to always move the block. Reference model (shared by the tasks, updated atomically with
// respect to scheduling because harness code contains no scheduling point): for every index
// the address first returned, what was last written there, and bounds on the current size.
#include "../simk/sched.h"
#include "../simk/shim.h"
#include <errno.h>
#include <limits.h>
#include <stddef.h>
#include <stdlib.h>
#include <stdio.h>
#include <string.h>
#include <map>
#include <vector>
#include <sanitizer/allocator_interface.h>

extern "C" {
#include <qb/qbarray.h>
}

#ifndef HARNESS_NAME
#define HARNESS_NAME "array_conc"
#endif

using namespace simk;

enum { K_INDEX, K_GROW, K_CHECK_PTR, K_N };
static const char *const op_names[K_N] = { "index", "grow", "check_ptr" };

#define MAXT 4
#define MAXU 6
#define MAX_INDEX 65536          // QB_ARRAY_MAX_ELEMENTS
#define PER_BIN 16
#define MAX_BINS_ (MAX_INDEX / PER_BIN)
#define MAX_ELSIZE 8192
#define AVOID_TOKEN "bin-table-move"

// array.c keeps struct qb_array private. The harness needs two things from it: where the bin
// pointer table currently lives (to register it as a shared region) and how many bins it has
// (to predict, in "avoid" mode, which calls will reallocate the table). This mirror is checked
// against the library at the start of every run (layout_ok()).
struct ArrayMirror {
	void **bin;
	size_t max_elements;
	size_t element_size;
	size_t num_bins;
	size_t autogrow_elements;
	void *grow_lock;
	qb_array_new_bin_cb_fn new_bin_cb;
};

static int p_huge, p_h7, p_after_unlock, p_handoff_in_op, p_moved, p_moved_during_index, p_autogrow, p_grow_refused, p_neg,
	p_big, p_erange, p_either, p_cb, p_zero, p_reread_growth, p_reread_foreign, p_shared_idx, p_gate_wait, p_ptr_check, p_enomem_grow, p_enomem_index,
	p_grow_moving, p_grow_noop, p_bin_edge, s_tasks[MAXT + 1], s_final_checked;

static void init(const char *)
{
	p_h7 = counter_id("probe", "handoff_at_bin_table_read_after_unlock_in_index");
	p_after_unlock = counter_id("probe", "handoff_inside_index_after_lock_released");
	p_handoff_in_op = counter_id("probe", "handoff_inside_operation");
	p_moved = counter_id("probe", "realloc_moved_bin_table");
	p_moved_during_index = counter_id("probe", "bin_table_moved_while_another_task_inside_index");
	p_autogrow = counter_id("probe", "autogrow_triggered");
	p_grow_refused = counter_id("probe", "grow_beyond_max_refused");
	p_neg = counter_id("probe", "negative_index_refused");
	p_big = counter_id("probe", "index_ge_65536_refused");
	p_erange = counter_id("probe", "index_beyond_size_refused");
	p_either = counter_id("probe", "index_raced_with_grow_either_outcome_legal");
	p_cb = counter_id("probe", "new_bin_cb_invoked");
	p_zero = counter_id("probe", "first_read_zero_checked");
	p_reread_growth = counter_id("probe", "pattern_reread_after_growth");
	p_reread_foreign = counter_id("probe", "pattern_reread_by_other_task");
	p_shared_idx = counter_id("probe", "same_index_obtained_by_two_tasks");
	p_gate_wait = counter_id("probe", "avoid_gate_waited");
	p_huge = counter_id("probe", "unallocatable_element_size");
	p_enomem_grow = counter_id("probe", "grow_failed_on_injected_allocation_failure");
	p_enomem_index = counter_id("probe", "index_failed_on_injected_allocation_failure");
	p_ptr_check = counter_id("probe", "saved_pointer_checked_without_index_call");
	p_grow_moving = counter_id("probe", "grow_extended_bin_table");
	p_grow_noop = counter_id("probe", "grow_to_smaller_or_equal_size");
	p_bin_edge = counter_id("probe", "last_element_of_a_bin_indexed");
	for (int t = 1; t <= MAXT; t++) {
		char b[24];
		snprintf(b, sizeof b, "runs_with_%d_tasks", t);
		s_tasks[t] = counter_id("stat", b);
	}
	s_final_checked = counter_id("stat", "elements_checked_in_final_pass");
}

// ------------------------------------------------------------------ per-run state
struct Elem {
	uint8_t *addr;
	bool written;
	int wtask;
	uint64_t serial;
	uint64_t gen_at_write;     // growth counter when the pattern was written
	bool zero_counted;
	unsigned by_mask;          // tasks that obtained this element
};

struct St {
	const RunSpec *spec = NULL;
	qb_array_t *arr = NULL;
	ArrayMirror *m = NULL;
	int ntasks = 1;
	size_t elsize = 1, autogrow = 0;
	bool cb_on = false, gate = false;
	// bounds on max_elements: every completed growth is in lo, every started growth is in hi
	size_t size_lo = 0, size_hi = 0;
	uint64_t grow_gen = 0;
	uint64_t serial = 0;
	std::map<int32_t, Elem> elems;
	std::map<uintptr_t, int32_t> by_addr;
	std::vector<int32_t> order;            // indices in order of first success
	std::vector<uint8_t> cb_count = std::vector<uint8_t>(MAX_BINS_ + 2, 0);
	// per task
	bool in_index[MAXT] = { false, false, false, false }, in_grow[MAXT] = { false, false, false, false },
	     may_autogrow[MAXT] = { false, false, false, false };
	// handoffs seen at an access point of qb_array_index, by the number of unlock calls the call had made
	// so far; which unlock was the last one (1 normally, 3 on the autogrow path) is known when the call returns
	int nunlock[MAXT] = { 0, 0, 0, 0 }, prev_k[MAXT] = { 0, 0, 0, 0 };
	uint32_t ev_after[MAXT][MAXU] = {}, ev_h7[MAXT][MAXU] = {};
	uint64_t last_h[MAXT] = { 0, 0, 0, 0 };
	uint64_t ok_index[MAXT] = { 0, 0, 0, 0 };
	uint64_t ngrow = 0, nreread = 0;
	// registered bin table
	const void *tab_base = NULL; size_t tab_len = 0;
	// avoid gate (see gate_enter)
	int in_plain = 0, in_g = 0, in_mi = 0;
};
static St *Gp;
#define G (*Gp)

static inline size_t bins_for(size_t max_elements)
{
	size_t b = max_elements / PER_BIN + 1;
	return b < MAX_BINS_ ? b : MAX_BINS_;
}

// pattern byte k of the element written by `task` at `idx` with serial number `serial`
static inline uint64_t pat_word(int task, int32_t idx, uint64_t serial, size_t w)
{
	return mix64((serial << 24) ^ ((uint64_t)(uint32_t)idx << 4) ^ (uint64_t)task ^ ((uint64_t)w * 0x9e3779b97f4a7c15ULL)) | 0x0101010101010101ULL;
}
static void pat_fill(uint8_t *d, size_t n, int task, int32_t idx, uint64_t serial)
{
	for (size_t o = 0, w = 0; o < n; o += 8, w++) {
		uint64_t v = pat_word(task, idx, serial, w);
		size_t k = n - o < 8 ? n - o : 8;
		memcpy(d + o, &v, k);
	}
}
// offset of the first differing byte, or -1
static long pat_diff(const uint8_t *d, size_t n, int task, int32_t idx, uint64_t serial)
{
	for (size_t o = 0, w = 0; o < n; o += 8, w++) {
		uint64_t v = pat_word(task, idx, serial, w);
		size_t k = n - o < 8 ? n - o : 8;
		if (memcmp(d + o, &v, k)) {
			for (size_t b = 0; b < k; b++) if (d[o + b] != ((const uint8_t *)&v)[b]) return (long)(o + b);
		}
	}
	return -1;
}
static long first_nonzero(const uint8_t *d, size_t n)
{
	for (size_t o = 0; o < n; o++) if (d[o]) return (long)o;
	return -1;
}

// ------------------------------------------------------------------ shared regions
// region 0: the array header; region 1: the bin pointer table wherever it currently is.
// Called by the baton holder only (run set-up, and from the access observer below).
static void refresh_regions(bool from_hook)
{
	const void *base = G.m->bin;
	size_t len = 0;
	if (base && __sanitizer_get_ownership(base)) len = __sanitizer_get_allocated_size(base);
	if (base == G.tab_base && len == G.tab_len) return;
	if (from_hook && G.tab_base && base != G.tab_base) {
		count(p_moved);
		// was a task other than the one that reallocated inside qb_array_index at this moment?
		int nidx = 0, nidx_plain = 0, ngrow = 0;
		for (int t = 0; t < G.ntasks; t++) {
			if (G.in_index[t]) { nidx++; if (!G.may_autogrow[t]) nidx_plain++; }
			if (G.in_grow[t]) ngrow++;
		}
		if (nidx >= 2 || (nidx_plain >= 1 && ngrow >= 1)) count(p_moved_during_index);
	}
	G.tab_base = base; G.tab_len = len;
	access_regions_clear();
	access_region_add(G.m, sizeof(ArrayMirror));
	if (base && len) access_region_add(base, len);
}

// observer of every access array.c makes inside a registered region (after the preemption
// point of that access, before the access itself)
static void hook(const void *, int, int is_write, int, int region, size_t)
{
	int t = cur_task();
	if (region < 0 || t < 0 || t >= MAXT) return;
	uint64_t h = handoffs();
	int k = G.nunlock[t];
	if (G.in_index[t] && k >= 1 && k < MAXU && G.prev_k[t] == k && h != G.last_h[t]) {
		// this task was parked at this access and others ran; no lock call since its previous access
		G.ev_after[t][k]++;
		if (region == 1 && !(is_write & 1)) G.ev_h7[t][k]++;
	}
	G.last_h[t] = h;
	G.prev_k[t] = k;
	refresh_regions(true);
}

static void on_call(uint32_t site)
{
	int t = cur_task();
	if (t < 0 || t >= MAXT) return;
	// the unlock wrapper yields before it releases: the unlocked window opens at the next access
	if (site == S_UNLOCK && G.in_index[t] && G.nunlock[t] < MAXU) G.nunlock[t]++;
}

static void new_bin_cb(qb_array_t *a, uint32_t bin)
{
	if (!Gp) return;
	count(p_cb);
	if (a != G.arr) fail("new-bin-cb-wrong-array", "qb_array_index", "new_bin_cb called with a different array handle");
	if (bin >= MAX_BINS_) fail("new-bin-cb-bad-bin", "qb_array_index", "new_bin_cb called for bin %u (only %d bins can exist)", bin, MAX_BINS_);
	if (G.cb_count[bin] < 255) G.cb_count[bin]++;
	if (G.cb_count[bin] > 1)
		fail("new-bin-cb-twice", "qb_array_index", "new_bin_cb called %d times for bin %u", (int)G.cb_count[bin], bin);
}

// ------------------------------------------------------------------ avoid gate
// With cfg gate=1 (generated when SIMK_AVOID contains "bin-table-move") a call that will reallocate
// the bin table never overlaps a qb_array_index call of another task: the known defect (index reads
// the table after dropping the lock) is kept out of the way, everything else is still interleaved:
// index || index, index || grow that stays inside the table, table-moving grow || table-moving grow.
enum { GC_PLAIN, GC_G, GC_MI };
static bool gate_ok_plain(void *) { return G.in_g == 0 && G.in_mi == 0; }
static bool gate_ok_g(void *) { return G.in_plain == 0 && G.in_mi == 0; }
static bool gate_ok_mi(void *) { return G.in_plain == 0 && G.in_g == 0 && G.in_mi == 0; }
static void gate_enter(int cls)
{
	pred_fn f = cls == GC_PLAIN ? gate_ok_plain : cls == GC_G ? gate_ok_g : gate_ok_mi;
	bool waited = false;
	while (!f(NULL)) { waited = true; block_until(f, NULL, -1, 900 + (uint32_t)cls); }
	if (waited) count(p_gate_wait);
	if (cls == GC_PLAIN) G.in_plain++; else if (cls == GC_G) G.in_g++; else G.in_mi++;
}
static void gate_leave(int cls)
{
	if (cls == GC_PLAIN) G.in_plain--; else if (cls == GC_G) G.in_g--; else G.in_mi--;
}

// ------------------------------------------------------------------ injected allocation failures
// A call during which an allocation was made to fail may return -ENOMEM and must then have changed nothing that matters:
// every address handed out before stays valid, every element keeps its contents, later calls work.
static uint64_t g_alloc_failed[MAXT];
static void on_fault(int kind) { if (kind == F_ALLOC_ENOMEM && cur_task() >= 0 && cur_task() < MAXT) g_alloc_failed[cur_task()]++; }

// ------------------------------------------------------------------ oracle pieces
static void check_contents(int me, int32_t idx, Elem &e, const uint8_t *addr, const char *how)
{
	if (!e.written) {
		long nz = first_nonzero(addr, G.elsize);
		if (nz >= 0)
			fail("unwritten-element-not-zero", "qb_array_index", "element %d was never written but byte %ld reads 0x%02x (%s, element size %zu)",
			     idx, nz, addr[nz], how, G.elsize);
		if (!e.zero_counted) { e.zero_counted = true; count(p_zero); }
	} else {
		long d = pat_diff(addr, G.elsize, e.wtask, idx, e.serial);
		if (d >= 0)
			fail("written-pattern-lost", "qb_array_index", "element %d (written by task %d, serial %llu, size %zu) differs at byte %ld (%s, %llu growths since the write)",
			     idx, e.wtask, (unsigned long long)e.serial, G.elsize, d, how, (unsigned long long)(G.grow_gen - e.gen_at_write));
		G.nreread++;
		if (G.grow_gen != e.gen_at_write) count(p_reread_growth);
		if (me >= 0 && me != e.wtask) count(p_reread_foreign);
	}
}

static void on_index_success(int me, int32_t idx, void *out, bool want_write)
{
	uint8_t *addr = (uint8_t *)out;
	if (addr == NULL || addr == (uint8_t *)(uintptr_t)1)
		fail("index-no-address", "qb_array_index", "index %d returned 0 but %s", idx, addr ? "did not store an address" : "stored a NULL address");
	if (failed()) return;       // (fail() only returns outside a task)
	std::map<int32_t, Elem>::iterator it = G.elems.find(idx);
	if (it == G.elems.end()) {
		uintptr_t a = (uintptr_t)addr;
		std::map<uintptr_t, int32_t>::iterator nx = G.by_addr.lower_bound(a);
		if (nx != G.by_addr.end() && nx->first < a + G.elsize)
			fail("elements-overlap", "qb_array_index", "storage of index %d starts %lld bytes before that of index %d (element size %zu)",
			     idx, (long long)(nx->first - a), nx->second, G.elsize);
		if (nx != G.by_addr.begin()) {
			std::map<uintptr_t, int32_t>::iterator pv = nx; --pv;
			if (pv->first + G.elsize > a)
				fail("elements-overlap", "qb_array_index", "storage of index %d starts %lld bytes after that of index %d (element size %zu)",
				     idx, (long long)(a - pv->first), pv->second, G.elsize);
		}
		Elem e; memset(&e, 0, sizeof e);
		e.addr = addr;
		it = G.elems.insert(std::make_pair(idx, e)).first;
		G.by_addr[a] = idx;
		G.order.push_back(idx);
		if ((idx & (PER_BIN - 1)) == PER_BIN - 1) count(p_bin_edge);
	} else if (it->second.addr != addr) {
		fail("address-changed", "qb_array_index", "index %d now has an address %lld bytes away from the one returned before (element size %zu, %llu growths so far)",
		     idx, (long long)((intptr_t)addr - (intptr_t)it->second.addr), G.elsize, (unsigned long long)G.grow_gen);
	}
	if (failed()) return;
	Elem &e = it->second;
	if (me >= 0) {
		if (e.by_mask && !(e.by_mask & (1u << me))) count(p_shared_idx);
		e.by_mask |= 1u << me;
		G.ok_index[me]++;
	}
	check_contents(me, idx, e, addr, "through the address just returned");
	if (want_write && me >= 0 && idx % G.ntasks == me) {
		uint64_t s = ++G.serial;
		pat_fill(addr, G.elsize, me, idx, s);
		e.written = true; e.wtask = me; e.serial = s; e.gen_at_write = G.grow_gen;
	}
}

static void note_growth(size_t n)
{
	if (n > G.size_lo) { G.size_lo = n; G.grow_gen++; }
}

// ------------------------------------------------------------------ operations
static void do_index(int me, const Op &op)
{
	int64_t raw = op.a[0];
	if (raw > INT32_MAX) raw = INT32_MAX;
	if (raw < INT32_MIN) raw = INT32_MIN;
	int32_t idx = (int32_t)raw;
	bool want_write = op.a[1] != 0;
	bool valid = idx >= 0 && idx < MAX_INDEX;
	bool auto_on = G.autogrow > 0;
	int cls = GC_PLAIN;
	if (G.gate) {
		if (valid && auto_on && bins_for((size_t)idx + 1) > G.m->num_bins) cls = GC_MI;
		gate_enter(cls);
	}
	size_t lo0 = G.size_lo, hi0 = G.size_hi;
	if (valid && auto_on && (size_t)idx + 1 > G.size_hi) G.size_hi = (size_t)idx + 1;
	G.in_index[me] = true; G.nunlock[me] = 0; G.prev_k[me] = 0;
	memset(G.ev_after[me], 0, sizeof G.ev_after[me]); memset(G.ev_h7[me], 0, sizeof G.ev_h7[me]);
	G.may_autogrow[me] = valid && auto_on && (size_t)idx >= lo0;
	ev(200, me, idx, want_write);
	void *out = (void *)(uintptr_t)1;
	uint64_t af0 = g_alloc_failed[me];
	int32_t rc = qb_array_index(G.arr, idx, &out);
	G.in_index[me] = false;
	bool enomem = rc == -ENOMEM && g_alloc_failed[me] != af0;
	if (G.nunlock[me] >= 1 && G.nunlock[me] < MAXU) {
		// only what happened after the call's last unlock was outside the lock for certain
		count(p_after_unlock, G.ev_after[me][G.nunlock[me]]);
		count(p_h7, G.ev_h7[me][G.nunlock[me]]);
	}
	if (G.gate) gate_leave(cls);
	ev(201, me, rc);
	fp_mix(mix64(((uint64_t)(uint32_t)idx << 20) ^ ((uint64_t)(uint32_t)rc << 4) ^ (uint64_t)me));
	size_t hi1 = G.size_hi;
	if (enomem && valid) { count(p_enomem_index); return; }      // a legitimately failed call: no address, no growth recorded
	if (idx < 0) {
		if (rc != -ERANGE)
			fail("negative-index-not-range-error", "qb_array_index", "index %d returned %d, expected -ERANGE (%d)", idx, rc, -ERANGE);
		count(p_neg);
		return;
	}
	if (idx >= MAX_INDEX) {
		if (rc == 0)
			fail("index-beyond-maximum-succeeded", "qb_array_index", "index %d (>= %d) returned 0 (autogrow %zu)", idx, MAX_INDEX, G.autogrow);
		count(p_big);
		return;
	}
	if (auto_on) {
		if (rc != 0)
			fail("autogrow-index-failed", "qb_array_index", "index %d returned %d although the array was created with autogrow %zu (size between %zu and %zu)",
			     idx, rc, G.autogrow, lo0, hi1);
		if ((size_t)idx >= hi0) count(p_autogrow);
		note_growth((size_t)idx + 1);
	} else if ((size_t)idx < lo0) {
		if (rc != 0)
			fail("index-within-size-failed", "qb_array_index", "index %d returned %d although the size was already %zu when the call started", idx, rc, lo0);
	} else if ((size_t)idx >= hi1) {
		if (rc != -ERANGE)
			fail("index-beyond-size-not-range-error", "qb_array_index", "index %d returned %d, expected -ERANGE: no grow beyond %zu was started before the call returned (no autogrow)",
			     idx, rc, hi1);
		count(p_erange);
	} else {
		if (rc != 0 && rc != -ERANGE)
			fail("index-bad-return", "qb_array_index", "index %d returned %d (size between %zu and %zu during the call)", idx, rc, lo0, hi1);
		count(p_either);
	}
	if (rc != 0) return;
	on_index_success(me, idx, out, want_write);
}

static void do_grow(int me, const Op &op)
{
	size_t n = (size_t)op.a[0];      // a negative argument is a huge size_t: a legal call that must be refused
	bool valid = n <= MAX_INDEX;
	bool mover = valid && bins_for(n) > G.m->num_bins;
	bool gated = G.gate && mover;
	if (gated) gate_enter(GC_G);
	size_t lo0 = G.size_lo;
	if (valid && n > G.size_hi) G.size_hi = n;
	G.in_grow[me] = true;
	ev(202, me, (int64_t)n);
	uint64_t af0 = g_alloc_failed[me];
	int32_t rc = qb_array_grow(G.arr, n);
	G.in_grow[me] = false;
	if (gated) gate_leave(GC_G);
	ev(203, me, rc);
	fp_mix(mix64(((uint64_t)n << 20) ^ ((uint64_t)(uint32_t)rc << 4) ^ (uint64_t)me ^ 0x8000));
	if (!valid) {
		if (rc == 0)
			fail("grow-beyond-maximum-succeeded", "qb_array_grow", "grow to %zu elements (> %d) returned 0", n, MAX_INDEX);
		count(p_grow_refused);
		return;
	}
	if (rc == -ENOMEM && g_alloc_failed[me] != af0) { count(p_enomem_grow); return; }     // failed for want of memory: nothing grew
	if (rc != 0)
		fail("grow-failed", "qb_array_grow", "grow to %zu elements returned %d (size was at least %zu)", n, rc, lo0);
	if (n <= lo0) count(p_grow_noop);
	else G.ngrow++;
	if (mover) count(p_grow_moving);
	note_growth(n);
}

// use a pointer obtained earlier without asking the array again ("now even if there is a grow,
// this pointer will be valid")
static void do_check_ptr(int me, const Op &op)
{
	if (G.order.empty()) return;
	uint64_t k = (uint64_t)op.a[0];
	int32_t idx = G.order[k % G.order.size()];
	Elem &e = G.elems[idx];
	ev(204, me, idx);
	count(p_ptr_check);
	check_contents(me, idx, e, e.addr, "through the pointer saved from an earlier index call");
}

static void task_main(void *arg)
{
	int me = (int)(long)arg;
	const Plan &p = G.spec->plan;
	for (size_t i = 0; i < p.ops.size(); i++) {
		const Op &op = p.ops[i];
		if (op.task != me) continue;
		uint64_t h0 = handoffs();
		switch (op.kind) {
		case K_INDEX: do_index(me, op); break;
		case K_GROW: do_grow(me, op); break;
		case K_CHECK_PTR: do_check_ptr(me, op); break;
		default: break;
		}
		if (handoffs() != h0) count(p_handoff_in_op);
	}
}

// ------------------------------------------------------------------ generation
static bool avoid_has(const char *tok)
{
	const char *e = getenv("SIMK_AVOID");
	if (!e) return false;
	size_t n = strlen(tok);
	for (const char *p = e; *p;) {
		const char *c = strchr(p, ',');
		size_t l = c ? (size_t)(c - p) : strlen(p);
		if (l == n && !strncmp(p, tok, n)) return true;
		if (!c) break;
		p = c + 1;
	}
	return false;
}

static void gen(const char *, RunSpec &spec)
{
	Rng r = stream(spec.seed, "data");
	Plan &p = spec.plan;
	int ntasks;
	{ uint32_t k = (uint32_t)r.below(100); ntasks = k < 14 ? 1 : k < 54 ? 2 : k < 80 ? 3 : 4; }
	size_t elsize;
	{
		uint32_t k = (uint32_t)r.below(100);
		static const int64_t es[] = { 1, 3, 8, 24 };
		if (k < 72) elsize = (size_t)es[r.below(4)];
		else if (k < 84) elsize = 4096;
		else { static const int64_t eo[] = { 2, 5, 7, 16, 17, 100, 255 }; elsize = (size_t)eo[r.below(7)]; }
	}
	int64_t init;
	{
		uint32_t k = (uint32_t)r.below(100);
		static const int64_t is[] = { 0, 1, 15, 16, 17, 65536 };
		if (k < 66) init = is[r.below(6)];
		else if (k < 90) init = r.range(0, 300);
		else init = r.range(0, 65536);
	}
	static const int64_t ags[] = { 0, 0, 1, 16 };
	int64_t autogrow = ags[r.below(4)];
	p.set("ntasks", ntasks);
	p.set("elsize", (int64_t)elsize);
	p.set("init", init);
	p.set("autogrow", autogrow);
	p.set("cb", r.chance(1, 2));
	p.set("moves", r.chance(7, 8));
	p.set("gate", avoid_has(AVOID_TOKEN) ? 1 : 0);
	// a fifth of the runs meet allocation failures inside index / grow calls
	p.set("rate_alloc", r.chance(1, 5) ? (int64_t)r.range(1500, 14000) : 0);

	// one run in forty: an element size whose bin (16 elements) no allocator can provide (run() then only asks for elements)
	if (r.chance(1, 40)) p.set("huge", r.range(1, 6));

	int nops = r.chance(1, 2) ? (int)r.range(2, 24) : (int)r.range(24, 90);
	if (elsize >= 4096 && nops > 50) nops = 50;
	uint32_t w_grow = 6 + (uint32_t)r.below(30), w_ptr = (uint32_t)r.below(14);
	int64_t est = init;                   // estimated size as the plan is laid out
	std::vector<int32_t> pool;            // indices used so far (re-reads)
	for (int n = 0; n < nops; n++) {
		int task = (int)r.below((uint64_t)ntasks);
		uint32_t k = (uint32_t)r.below(100);
		if (k < w_grow) {
			uint32_t g = (uint32_t)r.below(100);
			int64_t to;
			if (g < 45) to = est + r.range(1, 50);
			else if (g < 60) to = (est / PER_BIN + 1 + r.range(0, 3)) * PER_BIN + r.range(-1, 1);
			else if (g < 72) to = r.range(0, MAX_INDEX);
			else if (g < 78) to = MAX_INDEX - r.range(0, 17);
			else if (g < 88) { static const int64_t bad[] = { MAX_INDEX + 1, MAX_INDEX + 16, 1 << 20, 1LL << 32, -1 }; to = bad[r.below(5)]; }
			else to = est - (int64_t)r.below((uint64_t)est + 1);
			if (to > MAX_INDEX && g < 72) to = MAX_INDEX;
			p.add(task, K_GROW, to);
			if (to >= 0 && to <= MAX_INDEX && to > est) est = to;
			continue;
		}
		if (k < w_grow + w_ptr) { p.add(task, K_CHECK_PTR, (int64_t)r.below(1000)); continue; }
		uint32_t c = (uint32_t)r.below(100);
		int64_t idx;
		bool pooled = false;
		if (c < 33 && !pool.empty()) { idx = pool[r.below(pool.size())]; pooled = true; }
		else if (c < 45) idx = est + r.range(-3, 3);
		else if (c < 55) idx = r.range(0, 40);
		else if (c < 65) idx = (r.chance(1, 2) ? r.range(0, est / PER_BIN + 2) : r.range(0, MAX_BINS_)) * PER_BIN + r.range(-1, 1);
		else if (c < 75) idx = r.range(0, MAX_INDEX - 1);
		else if (c < 80) idx = MAX_INDEX - 1 - r.range(0, 20);
		else if (c < 85) { static const int64_t neg[] = { -1, -2, -16, -65536, INT32_MIN }; idx = r.chance(1, 4) ? -r.range(1, 1 << 30) : neg[r.below(5)]; }
		else if (c < 90) { static const int64_t big[] = { MAX_INDEX, MAX_INDEX + 1, MAX_INDEX + 16, 1 << 20, INT32_MAX }; idx = big[r.below(5)]; }
		else idx = r.range(0, est + 20);
		bool wr = r.chance(3, 5);
		// writes only take effect on elements the task owns (idx % ntasks == task): aim there most of the time
		if (wr && !pooled && idx >= 0 && idx < MAX_INDEX && r.chance(3, 4)) {
			int64_t own = idx - idx % ntasks + task;
			if (own >= 0 && own < MAX_INDEX) idx = own;
		}
		p.add(task, K_INDEX, idx, wr ? 1 : 0);
		if (idx >= 0 && idx < MAX_INDEX) {
			pool.push_back((int32_t)idx);
			if (autogrow && idx + 1 > est) est = idx + 1;
		}
	}
}

// ------------------------------------------------------------------ run
static bool layout_ok(size_t init, size_t elsize, size_t autogrow)
{
	const ArrayMirror *m = G.m;
	if (!__sanitizer_get_ownership(m) || __sanitizer_get_allocated_size(m) != sizeof(ArrayMirror)) return false;
	if (m->max_elements != init || m->element_size != elsize || m->autogrow_elements != autogrow) return false;
	if (m->num_bins != qb_array_num_bins_get(G.arr) || m->num_bins != bins_for(init)) return false;
	if (!m->bin || !__sanitizer_get_ownership(m->bin) || __sanitizer_get_allocated_size(m->bin) != m->num_bins * sizeof(void *)) return false;
	if (m->new_bin_cb != NULL || m->grow_lock == NULL) return false;
	return true;
}

static void run(const char *, const RunSpec &spec)
{
	const Plan &p = spec.plan;
	St st;
	Gp = &st;
	G.spec = &spec;
	// configuration, clamped: a replay file may have been edited
	int64_t v = p.get("ntasks", 2);
	G.ntasks = v < 1 ? 1 : v > MAXT ? MAXT : (int)v;
	v = p.get("elsize", 8);
	G.elsize = v < 1 ? 1 : v > MAX_ELSIZE ? MAX_ELSIZE : (size_t)v;      // element size 0 is refused by qb_array_create
	v = p.get("init", 16);
	size_t init = v < 0 ? 0 : v > MAX_INDEX ? MAX_INDEX : (size_t)v;
	v = p.get("autogrow", 0);
	G.autogrow = v < 0 ? 0 : v > PER_BIN ? PER_BIN : (size_t)v;          // > 16 is refused by qb_array_create_2
	G.cb_on = p.get("cb", 0) != 0;
	G.gate = p.get("gate", 0) != 0;
	count(s_tasks[G.ntasks]);
	shim_reset();
	shim_cfg().realloc_always_moves = p.get("moves", 1) ? 1 : 0;
	v = p.get("rate_alloc", 0);
	shim_cfg().rate_alloc = v < 0 ? 0 : v > 30000 ? 30000 : (uint32_t)v;
	memset(g_alloc_failed, 0, sizeof g_alloc_failed);
	v = p.get("huge", 0);
	if (v > 0) {
		// "for all element sizes": sizes for which 16 elements exceed any address space (and, from 2^60 on, size_t itself).
		// Creating such an array is accepted; every qb_array_index must then fail, there is no storage it could hand out.
		static const size_t HUGE_ES[6] = { ((size_t)1 << 60) + 4, ((size_t)1 << 61) + 4, ((size_t)1 << 63) + 1, SIZE_MAX / 16 + 2, (size_t)1 << 62, (size_t)1 << 50 };
		size_t es = HUGE_ES[(size_t)(v - 1) % 6];
		set_nontrivial(1);
		count(p_huge);
		qb_array_t *a = qb_array_create_2(init > 64 ? 64 : init, es, G.autogrow);
		if (a) {
			static const int32_t IDX[5] = { 0, 2, 8, 17, 33 };
			for (int k = 0; k < 5 && !failed(); k++) {
				void *addr = NULL;
				int32_t rc = qb_array_index(a, IDX[k], &addr);
				ev(120, IDX[k], rc);
				if (rc == 0)
					fail("index-succeeded-for-unallocatable-element-size", "qb_array_index", "qb_array_index(%d) of an array with element size %zu returned 0 and address %p: 16 such elements cannot have been allocated",
					     IDX[k], es, addr);
			}
			qb_array_free(a);
		}
		Gp = NULL;
		return;
	}
	errno = 0;
	G.arr = qb_array_create_2(init, G.elsize, G.autogrow);
	if (!G.arr) {
		fail("create-failed", "qb_array_create_2", "create(%zu, %zu, %zu) failed, errno %d", init, G.elsize, G.autogrow, errno);
		Gp = NULL;
		return;
	}
	G.m = (ArrayMirror *)G.arr;
	if (!layout_ok(init, G.elsize, G.autogrow)) {
		fprintf(stderr, "array_conc: struct qb_array no longer matches the harness mirror (harness must be updated)\n");
		fail("harness-layout-mismatch", "array_conc", "struct qb_array in array.c no longer matches the mirror in harness/array_conc.cc");
		qb_array_free(G.arr);
		Gp = NULL;
		return;
	}
	G.size_lo = G.size_hi = init;
	if (G.cb_on) qb_array_new_bin_cb_set(G.arr, new_bin_cb);

	// expected number of scheduling points (horizon of the PCT / stall strategies): a few dozen per call, plus
	// one per table slot that a growth has to NULL-fill
	uint64_t expect = 20;
	size_t eb = bins_for(init);
	for (size_t i = 0; i < p.ops.size(); i++) {
		const Op &op = p.ops[i];
		if (op.task < 0 || op.task >= G.ntasks) continue;
		expect += 18;
		int64_t to = op.kind == K_GROW ? op.a[0] : (op.kind == K_INDEX && G.autogrow) ? op.a[0] + 1 : -1;
		if (to >= 0 && to <= MAX_INDEX && bins_for((size_t)to) > eb) { expect += bins_for((size_t)to) + 1 - eb; eb = bins_for((size_t)to) + 1; }
	}
	SchedCfg sc;
	sched_cfg_from_seed(spec.seed, G.ntasks, expect, 20000, sc);
	sched_begin(spec, sc);
	refresh_regions(false);
	g_access_hook = hook;
	shim_hooks().on_call = on_call;
	shim_hooks().on_fault = on_fault;
	static const char *const names[MAXT] = { "t0", "t1", "t2", "t3" };
	for (int t = 0; t < G.ntasks; t++) task_create(1, task_main, (void *)(long)t, names[t]);
	sched_run();
	g_access_hook = NULL;
	shim_hooks().on_call = NULL;
	bool torn = failed();
	sched_end();

	if (!torn) {
		// quiescent: every element ever obtained is asked for again, sequentially
		for (size_t n = 0; n < G.order.size() && !failed(); n++) {
			int32_t idx = G.order[n];
			void *out = (void *)(uintptr_t)1;
			int32_t rc = qb_array_index(G.arr, idx, &out);
			if (rc != 0) {
				fail("index-within-size-failed", "qb_array_index", "final pass: index %d returned %d although it succeeded earlier", idx, rc);
				break;
			}
			on_index_success(-1, idx, out, false);
			count(s_final_checked);
		}
		if (!failed() && G.cb_on) {
			for (size_t n = 0; n < G.order.size() && !failed(); n++) {
				uint32_t b = (uint32_t)G.order[n] / PER_BIN;
				if (G.cb_count[b] != 1)
					fail("new-bin-cb-missing", "qb_array_index", "new_bin_cb was called %d times for bin %u although elements of it were handed out",
					     (int)G.cb_count[b], b);
			}
		}
	}
	qb_array_free(G.arr);
	if (G.ntasks >= 2) {
		int active = 0;
		for (int t = 0; t < G.ntasks; t++) if (G.ok_index[t] >= 1) active++;
		set_nontrivial(active >= 2 && result().handoffs > 2);
	} else {
		set_nontrivial(G.ngrow >= 1 && G.nreread >= 1);
	}
	Gp = NULL;
}

static const Harness H = {
	HARNESS_NAME, op_names, K_N, shim_fault_names, F_N, gen, run, init,
	"a run is one seeded (configuration, workload, schedule) triple: 1-4 tasks on one shared array (element size, initial size, "
	"autogrow, new_bin_cb and always-moving realloc from the seed), preemptible at every access array.c makes to the array header "
	"and the bin pointer table and at every lock call; per-index address/content model checked after every call and in a final "
	"sequential pass; non-trivial = at least two tasks each completed a successful index and the baton changed hands more than "
	"twice (single-task baseline runs: at least one growth and one re-read of a written element); distinct = distinct fingerprint "
	"of the (yield site, task switched to) sequence combined with the (operation, argument, outcome) sequence"
};

int main(int argc, char **argv) { return harness_main(argc, argv, &H); }
