// Map iterators under removal and insertion: C18.
// Parties: one mutator (task 0) and 1..4 walkers (tasks 1..4), each walker owning at most one open
// iterator. They are interleaved at OPERATION granularity: the plan is one global list of operations and
// its order is the schedule. No faults. The simulator contributes seeded generation of (workload, schedule),
// the dictionary reference model with per-iteration key sets, shrinking and replay.
//
// Oracle (no stronger than C18):
//  * while any iterator is open the results of get / rm / count are executed but NOT judged (the property
//    promises dictionary behaviour only "once the iterators are gone");
//  * per iteration: K_all = keys present in the model for its whole life, K_ever = keys ever present during
//    it. A key returned by the iteration must be in K_ever (and carry the prefix of a prefix iterator).
//    A COMPLETED iteration returned every key of K_all, exactly once if no put happened during it, at
//    least once otherwise. Order is not judged. Abandoned iterations are not judged for completeness;
//  * a value announced through QB_MAP_NOTIFY_FREE is never announced again and never handed out afterwards
//    (the header tells callers to free their values in that notifier);
//  * whenever no iterator is open: get of every universe key, count, rm results and a fresh full iteration
//    agree exactly with the model;
//  * ASan / assertions: caught by the framework as crashes.
//
// "Avoid" switches (generator tokens in SIMK_AVOID, see avoid_tokens[]) are stored in the plan's cfg by
// gen() and honoured by the interpreter, which knows at run time which key a walker is positioned on; an
// avoided operation is skipped, i.e. that plan shape is not executed.
#include "../simk/simk.h"
#include <stdint.h>
#include <stdio.h>
#include <stdlib.h>
#include <string.h>
#include <signal.h>
#include <setjmp.h>
#include <unistd.h>
#include <sys/time.h>
#include <algorithm>
#include <string>
#include <vector>

extern "C" {
#include <qb/qbdefs.h>
#include <qb/qbmap.h>
}

using namespace simk;

enum { K_PUT, K_RM, K_RM_PARKED, K_RM_ALL, K_GET, K_COUNT, K_CHECK, K_ITER_CREATE, K_ITER_NEXT, K_ITER_FREE, K_FOREACH, K_N };
static const char *const op_names[K_N] = { "put", "rm", "rm_parked", "rm_all", "get", "count", "check",
					   "iter_create", "iter_next", "iter_free", "foreach" };

enum { IMPL_HASH = 0, IMPL_SKIP = 1, IMPL_TRIE = 2 };
static const char *const impl_names[3] = { "hashtable", "skiplist", "trie" };

// generator tokens understood in SIMK_AVOID, and the cfg switch each one sets
static const struct { const char *token, *cfg; } avoid_tokens[] = {
	// hashtable / trie: a key removed while an iterator is positioned on it stays linked and findable until that
	// iterator moves on; do not rm / put such a key and do not start a new iteration while one exists
	{ "hashtable_touch_key_removed_under_iter", "av_ghost_h" },
	{ "trie_touch_key_removed_under_iter", "av_ghost_t" },
	// hashtable: iter_free does not drop the iterator's reference; after abandoning an iterator positioned on a
	// key, do not rm that key (and do not abandon an iterator positioned on an already removed key)
	{ "hashtable_abandon_then_rm", "av_stuck" },
	// skiplist: do not rm the last remaining key while an iterator is positioned on it or on another removed key
	{ "skiplist_rm_last_key_under_iter", "av_sl_last" },
	// skiplist: a node removed under an iterator shares its forward array with a live "owner" node (its predecessor
	// at the time, later whoever takes that array over); do not rm a key when that frees the array such a node
	// still needs (the owner itself without hand-over, or the owner's successor with hand-over)
	{ "skiplist_rm_frees_shared_forward", "av_sl" },
	// trie: rm of an absent key that is a prefix of (or equal to) a key that was ever inserted
	{ "trie_rm_absent_prefix", "av_trm" },
	// trie: put of a new key that forces a split at or above the node an iterator is positioned on
	{ "trie_put_splits_iter_node", "av_tsplit" },
};
#define N_AVOID (sizeof avoid_tokens / sizeof avoid_tokens[0])

// ------------------------------------------------------------------ key universe (process lifetime)
#define MAXM 64
#define MAXW 5          // walkers 1..4, slot 5 = the iteration inside qb_map_foreach
static std::vector<std::string> g_master;
static std::vector<int> g_family;       // family number of each master key
static char *g_kptr[MAXM][2];           // two exact-size heap copies of every key (never freed)
static int g_nfam;

static void add_key(int fam, const std::string &s)
{
	if (g_master.size() >= MAXM) return;
	g_master.push_back(s);
	g_family.push_back(fam);
}

static void build_universe()
{
	if (!g_master.empty()) return;
	int f = 0;
	for (const char *s : { "a", "ab", "abc", "abcd", "abcde", "abd", "abx" }) add_key(f, s);
	f++;
	for (const char *s : { "b", "ba", "bab", "babab", "bb" }) add_key(f, s);
	f++;
	for (const char *s : { "fo", "foo", "foobar", "foo.bar", "foo.bar.baz" }) add_key(f, s);
	f++;
	for (const char *s : { "ke", "key", "key1", "key12", "key2" }) add_key(f, s);
	f++;
	for (const char *s : { "\x80", "\x80\x81", "\x80\x81\x82", "\xff", "\xff\xfe", "a\xc3\xa9", "a\xc3" }) add_key(f, s);
	f++;
	{
		std::string L;
		for (int n = 0; n < 70; n++) L += (char)('A' + (n * 7) % 26);
		add_key(f, L.substr(0, 35)); add_key(f, L); add_key(f, L + "1"); add_key(f, L + "12"); add_key(f, L + "2");
	}
	f++;
	for (const char *s : { "z", "~", "\x7f", "\x01", " ", "A" }) add_key(f, s);
	f++;
	for (const char *s : { "zz", "zzz", "zzzz", "z\x7f", "zA", "\x7f\x7f" }) add_key(f, s);
	f++;
	g_nfam = f;
	for (size_t n = 0; n < g_master.size(); n++)
		for (int c = 0; c < 2; c++) {
			size_t len = g_master[n].size();
			g_kptr[n][c] = (char *)malloc(len + 1);
			memcpy(g_kptr[n][c], g_master[n].c_str(), len + 1);
		}
}

// values: unique tokens that are not heap objects
#define MAXV (1 << 16)
static char g_vals[MAXV];
static uint8_t g_val_key[MAXV];
static uint8_t g_val_freed[MAXV];

// ------------------------------------------------------------------ probes
static int c_rm_parked, c_rm_last_open, c_all_removed_open, c_insert_during, c_abandon, c_prefix, c_foreach_abort,
	c_multi_open, c_judged, c_judged_mut, c_rm_removed_parked, c_put_removed_parked, c_foreach_rm, c_quiescent,
	c_avoided, c_replace_during, c_iter_on_empty, c_rm_absent, c_free_notified, c_runs[3];

static int p_prefix_escape;
static void init(const char *)
{
	build_universe();
	p_prefix_escape = counter_id("probe", "prefix_iterator_returned_key_without_prefix_not_judged");
	c_rm_parked = counter_id("probe", "rm_of_key_a_walker_is_positioned_on");
	c_rm_last_open = counter_id("probe", "rm_of_last_remaining_key_while_iterator_open");
	c_all_removed_open = counter_id("probe", "all_keys_removed_while_iterator_open");
	c_insert_during = counter_id("probe", "insertion_during_iteration");
	c_abandon = counter_id("probe", "iterator_abandoned_part_way");
	c_prefix = counter_id("probe", "prefix_iterator_used");
	c_foreach_abort = counter_id("probe", "foreach_aborted");
	c_multi_open = counter_id("probe", "two_or_more_iterators_open");
	c_judged = counter_id("probe", "completed_iteration_judged");
	c_judged_mut = counter_id("probe", "completed_iteration_judged_with_mutation_during_it");
	c_rm_removed_parked = counter_id("probe", "rm_again_of_key_removed_under_iterator");
	c_put_removed_parked = counter_id("probe", "put_of_key_removed_under_iterator");
	c_foreach_rm = counter_id("probe", "foreach_callback_removed_current_key");
	c_replace_during = counter_id("probe", "replace_during_iteration");
	c_iter_on_empty = counter_id("probe", "iteration_completed_on_empty_map");
	c_rm_absent = counter_id("probe", "rm_of_absent_key");
	c_quiescent = counter_id("stat", "quiescent_full_checks");
	c_avoided = counter_id("stat", "ops_skipped_by_avoid_switch");
	c_free_notified = counter_id("stat", "free_notifications");
	c_runs[0] = counter_id("stat", "runs_hashtable");
	c_runs[1] = counter_id("stat", "runs_skiplist");
	c_runs[2] = counter_id("stat", "runs_trie");
}

// ------------------------------------------------------------------ generator
static bool env_has(const char *tok)
{
	const char *e = getenv("SIMK_AVOID");
	if (!e) return false;
	size_t tl = strlen(tok);
	for (const char *p = e; *p;) {
		const char *q = strchr(p, ',');
		size_t l = q ? (size_t)(q - p) : strlen(p);
		if (l == tl && !strncmp(p, tok, l)) return true;
		if (!q) break;
		p = q + 1;
	}
	return false;
}

static void gen(const char *, RunSpec &spec)
{
	Rng r = stream(spec.seed, "data");
	Plan &p = spec.plan;
	int impl = (int)r.below(3);
	int nkeys = r.chance(1, 2) ? (int)r.range(8, 14) : (int)r.range(8, 40);
	static const int64_t orders[] = { 0, 1, 7, 8, 16, 31, 64, 200 };
	p.set("impl", impl);
	p.set("nkeys", nkeys);
	p.set("kseed", (int64_t)(r.u64() & 0x7fffffff));
	p.set("rseed", (int64_t)(r.u64() & 0x7fffffff));
	p.set("order", orders[r.below(8)]);
	for (size_t n = 0; n < N_AVOID; n++)
		if (env_has(avoid_tokens[n].token)) p.set(avoid_tokens[n].cfg, 1);
	int nwalk = (int)r.range(1, 4);
	int nops = r.chance(1, 3) ? (int)r.range(5, 40) : (int)r.range(40, 150);

	// prefill
	int fill;
	uint32_t fk = (uint32_t)r.below(100);
	if (fk < 8) fill = 0;
	else if (fk < 35) fill = (int)r.range(1, 3);
	else if (fk < 65) fill = (int)r.range(2, nkeys / 2 + 1);
	else fill = (int)r.range(nkeys / 2, nkeys);
	for (int n = 0; n < fill; n++) p.add(0, K_PUT, (int64_t)r.below((uint64_t)nkeys), 1, (int64_t)r.below(2));
	int size_est = fill;

	// per-run operation mix (swarm): every weight can be switched off
	auto w = [&](uint32_t lo, uint32_t hi, uint32_t off_pct) -> uint32_t {
		if (r.below(100) < off_pct) return 0;
		return lo + (uint32_t)r.below(hi - lo + 1);
	};
	uint32_t m_put_new = w(1, 30, 25), m_replace = w(1, 10, 40), m_rm_present = w(5, 40, 5), m_rm_absent = w(1, 8, 40),
		 m_rm_parked = w(2, 30, 15), m_rm_all = w(1, 3, 60), m_get = w(1, 10, 30), m_count = w(1, 5, 40),
		 m_check = w(1, 6, 40), m_exact = w(1, 6, 50);
	uint32_t mtot = m_put_new + m_replace + m_rm_present + m_rm_absent + m_rm_parked + m_rm_all + m_get + m_count + m_check + m_exact;
	if (!mtot) { m_rm_present = 1; mtot = 1; }
	uint32_t mut_share = 15 + (uint32_t)r.below(56);
	uint32_t p_prefix = impl == IMPL_TRIE ? w(5, 60, 25) : 0;
	uint32_t p_foreach = w(2, 20, 40), p_abandon = w(1, 12, 35), p_drain = w(1, 15, 40);

	bool open[MAXW] = { false, false, false, false, false };
	int cnt[MAXW] = { 0, 0, 0, 0, 0 };
	for (int n = 0; n < nops; n++) {
		if (r.below(100) < mut_share) {
			uint32_t k = (uint32_t)r.below(mtot);
			int64_t key = (int64_t)r.below((uint64_t)nkeys);
			if (k < m_put_new) { p.add(0, K_PUT, key, 1, (int64_t)r.below(2)); size_est++; }
			else if ((k -= m_put_new) < m_replace) p.add(0, K_PUT, key, 2, (int64_t)r.below(2));
			else if ((k -= m_replace) < m_rm_present) { p.add(0, K_RM, key, 1); if (size_est) size_est--; }
			else if ((k -= m_rm_present) < m_rm_absent) p.add(0, K_RM, key, 2);
			else if ((k -= m_rm_absent) < m_rm_parked) { p.add(0, K_RM_PARKED, r.range(1, nwalk)); if (size_est) size_est--; }
			else if ((k -= m_rm_parked) < m_rm_all) { p.add(0, K_RM_ALL, (int64_t)r.below(4)); size_est = 0; }
			else if ((k -= m_rm_all) < m_get) p.add(0, K_GET, key);
			else if ((k -= m_get) < m_count) p.add(0, K_COUNT);
			else if ((k -= m_count) < m_check) p.add(0, K_CHECK);
			else if (r.chance(1, 2)) p.add(0, K_PUT, key, 0, (int64_t)r.below(2));
			else p.add(0, K_RM, key, 0);
		} else {
			int wk = (int)r.range(1, nwalk);
			if (!open[wk]) {
				if (r.below(100) < p_foreach) {
					p.add(wk, K_FOREACH, r.chance(1, 2) ? 0 : r.range(1, 6), r.chance(1, 2) ? 0 : r.range(1, 3));
				} else {
					bool pref = r.below(100) < p_prefix;
					p.add(wk, K_ITER_CREATE, pref ? 1 : 0, pref ? (int64_t)r.below((uint64_t)nkeys) : 0,
					      pref ? r.range(1, 6) : 0, pref && r.chance(1, 12) ? 1 : 0);
					open[wk] = true; cnt[wk] = 0;
				}
			} else {
				uint32_t x = (uint32_t)r.below(100);
				if (x < p_abandon) { p.add(wk, K_ITER_FREE); open[wk] = false; }
				else if (x < p_abandon + p_drain) {
					p.add(wk, K_ITER_NEXT, 64);
					if (r.chance(3, 4)) { p.add(wk, K_ITER_FREE); open[wk] = false; }
				} else {
					p.add(wk, K_ITER_NEXT, r.chance(1, 8) ? r.range(2, 4) : 1);
					cnt[wk]++;
					if (cnt[wk] > size_est + 2 && r.chance(1, 2)) { p.add(wk, K_ITER_FREE); open[wk] = false; }
				}
			}
		}
	}
	for (int wk = 1; wk <= nwalk; wk++)
		if (open[wk] && r.chance(2, 3)) {
			if (r.chance(2, 3)) p.add(wk, K_ITER_NEXT, 64);
			p.add(wk, K_ITER_FREE);
		}
}

// ------------------------------------------------------------------ interpreter state
struct Walker {
	qb_map_iter_t *it;
	bool open, completed;
	int parked;              // universe index of the key last returned, -1 if none
	bool parked_removed;     // that key was removed (model) while this walker is positioned on it
	uint64_t k_all, k_ever, k_ever_all, scope, retmask;   // k_ever_all: ever present since the iteration began, prefix or not
	uint16_t ret[MAXM];
	bool ins, mut;
	char *prefix;
	uint32_t nret;
};

struct Run {
	qb_map_t *map;
	int impl, nkeys;
	int uni[MAXM];           // universe index -> master index
	uint64_t present, ever_put, stuck, leaked;
	int sl_owner[MAXW + 1];  // skiplist bookkeeping for av_sl: owner key (-1 = header) of the array a removed, still referenced node uses
	uint32_t val[MAXM];      // serial of the current value of a present key
	uint32_t nserial;
	Walker w[MAXW + 1];
	bool in_foreach;
	bool av_ghost, av_stuck, av_sl, av_sl_last, av_trm, av_tsplit;
	uint64_t judged, judged_mut;
	char site_get[48], site_rm[48], site_count[48], site_next[48], site_notify[48];
	// foreach parameters
	int64_t fe_abort, fe_rm_every;
	uint32_t fe_step;
	bool fe_aborted;
};
static Run R;

static inline uint64_t bit(int k) { return 1ULL << k; }
static inline const char *kstr(int k) { return g_master[(size_t)R.uni[k]].c_str(); }
static inline const char *kp(int k, int copy) { return g_kptr[R.uni[k]][copy & 1]; }
static std::string printable(const char *s)
{
	std::string o;
	size_t n = 0;
	for (; *s && n < 24; s++, n++) {
		unsigned char c = (unsigned char)*s;
		char b[8];
		if (c >= 0x20 && c < 0x7f) o += (char)c; else { snprintf(b, sizeof b, "\\x%02x", c); o += b; }
	}
	if (*s) o += "...";
	return o;
}
static int find_key(const char *s)
{
	for (int k = 0; k < R.nkeys; k++)
		if (!strcmp(s, kstr(k))) return k;
	return -1;
}
static long serial_of(void *v)
{
	char *c = (char *)v;
	if (c < g_vals + 1 || c >= g_vals + MAXV) return -1;
	return (long)(c - g_vals);
}
static bool any_iter_open()
{
	if (R.in_foreach) return true;
	for (int n = 1; n <= MAXW; n++) if (R.w[n].open) return true;
	return false;
}
static bool walking(const Walker &w) { return w.open && !w.completed; }
// keys removed while a walker is (still) positioned on them
static uint64_t ghost_mask()
{
	uint64_t g = 0;
	for (int n = 1; n <= MAXW; n++)
		if (walking(R.w[n]) && R.w[n].parked >= 0 && R.w[n].parked_removed) g |= bit(R.w[n].parked);
	if (R.impl == IMPL_HASH) g |= R.stuck & ~R.present;
	return g;
}
static bool g_trace;
#define TRACE(...) do { if (g_trace) { fprintf(stderr, "map_iter: " __VA_ARGS__); fputc('\n', stderr); } } while (0)
static void skip(int why) { ev(99, why); TRACE("   skipped (%d)", why); }
static void avoided(int why) { count(c_avoided); ev(98, why); TRACE("   avoided (%d)", why); }

static void free_cb(uint32_t event, char *key, void *old_value, void *value, void *user_data)
{
	(void)value; (void)user_data;
	if (event != QB_MAP_NOTIFY_FREE) {
		fail("unrequested-notification", R.site_notify, "notifier registered for QB_MAP_NOTIFY_FREE only got event %u", event);
		return;
	}
	// the skiplist announces its internal header node (key NULL, value NULL) when the map is destroyed: freeing NULL is harmless
	if (old_value == NULL) { ev(96); return; }
	long s = serial_of(old_value);
	count(c_free_notified);
	if (s < 0 || (uint32_t)s > R.nserial) {
		fail("freed-unknown-value", R.site_notify, "FREE notification for a value that was never put (key \"%s\")",
		     key ? printable(key).c_str() : "(null)");
		return;
	}
	ev(97, s);
	TRACE("   FREE notification: value #%ld (key \"%s\")", s, printable(kstr(g_val_key[s])).c_str());
	if (g_val_freed[s])
		fail("value-freed-twice", R.site_notify, "value #%ld of key \"%s\" announced through QB_MAP_NOTIFY_FREE a second time",
		     s, printable(kstr(g_val_key[s])).c_str());
	g_val_freed[s] = 1;
}

// ------------------------------------------------------------------ model-updating operations
static void do_put(int k, int copy, size_t opi)
{
	bool was = (R.present >> k) & 1;
	uint64_t ghosts = ghost_mask();
	if (ghosts & bit(k)) {
		if (R.av_ghost) { avoided(1); return; }
		count(c_put_removed_parked);
	}
	if (R.av_tsplit && R.impl == IMPL_TRIE && !was) {
		const char *nk = kstr(k);
		for (int n = 1; n <= MAXW; n++) {
			const Walker &w = R.w[n];
			if (!walking(w) || w.parked < 0 || w.parked == k) continue;
			const char *pk = kstr(w.parked);
			if (strlen(nk) < strlen(pk) && strncmp(pk, nk, strlen(nk)) == 0) { avoided(2); return; }
		}
	}
	if (R.nserial + 1 >= MAXV) { skip(1); return; }
	uint32_t s = ++R.nserial;
	g_val_key[s] = (uint8_t)k;
	g_val_freed[s] = 0;
	qb_map_put(R.map, kp(k, copy), &g_vals[s]);
	R.present |= bit(k);
	R.ever_put |= bit(k);
	R.val[k] = s;
	bool during = false;
	for (int n = 1; n <= MAXW; n++) {
		Walker &w = R.w[n];
		if (!walking(w)) continue;
		during = true;
		w.ins = true; w.mut = true;
		if (!was) { w.k_ever |= bit(k) & w.scope; w.k_ever_all |= bit(k); }
	}
	if (during) count(was ? c_replace_during : c_insert_during);
	ev(201, k, was, s);
	TRACE("op %zu: put(\"%s\", #%u) %s", opi, printable(kstr(k)).c_str(), s, was ? "replace" : "insert");
}

// returns false if the operation was skipped
static bool do_rm(int k, size_t opi)
{
	bool was = (R.present >> k) & 1;
	uint64_t ghosts = ghost_mask();
	if (ghosts & bit(k)) {
		if (R.av_ghost) { avoided(3); return false; }
		count(c_rm_removed_parked);
	}
	if (R.av_stuck && R.impl == IMPL_HASH && (R.stuck & bit(k))) { avoided(4); return false; }
	int sl_pred = -1;
	bool sl_takeover = false;
	if (R.impl == IMPL_SKIP && was) {
		// mirror of skiplist_rm's hand-over decision, used only to steer around a known defect
		for (int j = 0; j < R.nkeys; j++)
			if (j != k && ((R.present >> j) & 1) && strcmp(kstr(j), kstr(k)) < 0 && (sl_pred < 0 || strcmp(kstr(j), kstr(sl_pred)) > 0)) sl_pred = j;
		bool referenced = (R.leaked >> k) & 1;
		for (int n = 1; n <= MAXW; n++) if (walking(R.w[n]) && R.w[n].parked == k && !R.w[n].parked_removed) referenced = true;
		sl_takeover = referenced || sl_pred < 0;
		bool danger = false;
		for (int n = 1; n <= MAXW; n++)
			if (walking(R.w[n]) && R.w[n].parked >= 0 && R.w[n].parked_removed && R.sl_owner[n] == (sl_takeover ? sl_pred : k)) danger = true;
		if (R.av_sl && danger) { avoided(5); return false; }
	}
	if (R.av_sl_last && R.impl == IMPL_SKIP && was && R.present == bit(k)) {
		bool parked_here = false;
		for (int n = 1; n <= MAXW; n++) if (walking(R.w[n]) && R.w[n].parked == k) parked_here = true;
		if (ghosts || parked_here) { avoided(10); return false; }
	}
	if (R.av_trm && R.impl == IMPL_TRIE && !was) {
		const char *ks = kstr(k);
		size_t kl = strlen(ks);
		for (int j = 0; j < R.nkeys; j++)
			if ((R.ever_put & bit(j)) && !strncmp(kstr(j), ks, kl)) { avoided(6); return false; }
	}
	bool open = any_iter_open();
	bool walk = false, on_parked = false;
	for (int n = 1; n <= MAXW; n++) {
		const Walker &w = R.w[n];
		if (!walking(w)) continue;
		walk = true;
		if (was && w.parked == k && !w.parked_removed) on_parked = true;
	}
	if (!was) count(c_rm_absent);
	if (on_parked) count(c_rm_parked);
	if (was && walk && R.present == bit(k)) count(c_rm_last_open);
	int32_t r = qb_map_rm(R.map, kp(k, (int)(opi & 1)));
	R.present &= ~bit(k);
	if (was) {
		for (int n = 1; n <= MAXW; n++) {
			Walker &w = R.w[n];
			if (!walking(w)) continue;
			w.k_all &= ~bit(k);
			w.mut = true;
			if (R.impl == IMPL_SKIP && sl_takeover && w.parked >= 0 && w.parked_removed && R.sl_owner[n] == k) R.sl_owner[n] = sl_pred;
			if (w.parked == k && !w.parked_removed) { w.parked_removed = true; R.sl_owner[n] = sl_pred; }
		}
		R.leaked &= ~bit(k);
		if (walk && R.present == 0) count(c_all_removed_open);
	}
	ev(202, k, was, r);
	TRACE("op %zu: rm(\"%s\") = %d (model: %s)%s", opi, printable(kstr(k)).c_str(), r, was ? "present" : "absent", open ? "" : " [judged]");
	if (!open && (r != 0) != was)
		fail(was ? "rm-of-present-key-failed" : "rm-of-absent-key-succeeded", R.site_rm,
		     "op %zu: no iterator open: qb_map_rm(\"%s\") returned %d but the key was %s", opi, printable(kstr(k)).c_str(), r,
		     was ? "present" : "absent");
	return true;
}

// one key handed out by an iteration (iter_next or the foreach callback)
static void returned_key(Walker &w, const char *s, void *v, size_t opi, const char *how)
{
	int k = find_key(s);
	if (k < 0) {
		fail("iter-returned-unknown-key", R.site_next, "op %zu: %s returned key \"%s\" which is not in the universe", opi, how,
		     printable(s).c_str());
		return;
	}
	long sv = serial_of(v);
	ev(210, k, sv);
	TRACE("op %zu: walker %d %s -> \"%s\" value #%ld", opi, (int)(&w - R.w), how, printable(s).c_str(), sv);
	w.nret++;
	if (!(w.scope & bit(k))) {
		// A prefix iterator returning a key that lacks the prefix is wrong by the documented iterator semantics, but
		// C18 as stated only forbids keys that were never present; it is counted, not judged (and such a key takes no
		// part in the completeness accounting of this iteration).
		count(p_prefix_escape);
		if (!(w.k_ever_all & bit(k)))
			fail("iter-returned-key-never-present-during-iteration", R.site_next,
			     "op %zu: %s returned key \"%s\" which was not in the map at any time since this iteration began", opi, how, printable(s).c_str());
		// the iterator is positioned on that key all the same (the rules that steer around listed findings need to know)
		w.parked = k;
		w.parked_removed = !((R.present >> k) & 1);
		return;
	}
	if (!(w.k_ever & bit(k))) {
		fail("iter-returned-key-never-present-during-iteration", R.site_next,
		     "op %zu: %s returned key \"%s\" which was not in the map at any time since this iteration began", opi, how,
		     printable(s).c_str());
		return;
	}
	if (sv < 0 || (uint32_t)sv > R.nserial) {
		fail("iter-returned-unknown-value", R.site_next, "op %zu: %s returned a value pointer that was never put (key \"%s\")", opi, how,
		     printable(s).c_str());
		return;
	}
	if (g_val_freed[sv]) {
		fail("iter-returned-freed-value", R.site_next, "op %zu: %s returned value #%ld of key \"%s\" after it was announced through QB_MAP_NOTIFY_FREE",
		     opi, how, sv, printable(s).c_str());
		return;
	}
	if (g_val_key[sv] != k) {
		fail("iter-returned-value-of-other-key", R.site_next, "op %zu: %s returned key \"%s\" with value #%ld which was put under key \"%s\"", opi,
		     how, printable(s).c_str(), sv, printable(kstr(g_val_key[sv])).c_str());
		return;
	}
	if (w.ret[k] < 0xffff) w.ret[k]++;
	w.retmask |= bit(k);
	w.parked = k;
	w.parked_removed = !((R.present >> k) & 1);
}

static void judge_completed(Walker &w, size_t opi, const char *how)
{
	w.completed = true;
	w.parked = -1;
	w.parked_removed = false;
	ev(211, (int64_t)w.nret);
	TRACE("op %zu: walker %d %s completed after %u keys (%s)", opi, (int)(&w - R.w), how, w.nret, w.ins ? "puts during it" : w.mut ? "removals during it" : "no mutation");
	count(c_judged);
	R.judged++;
	if (w.mut) { count(c_judged_mut); R.judged_mut++; }
	if (w.nret == 0 && R.present == 0) count(c_iter_on_empty);
	uint64_t missing = w.k_all & ~w.retmask;
	if (missing) {
		int k = __builtin_ctzll(missing);
		fail("iter-missed-key", R.site_next, "op %zu: %s completed after %u keys without returning \"%s\", which was present during the whole iteration (%s)",
		     opi, how, w.nret, printable(kstr(k)).c_str(),
		     w.ins ? "puts happened meanwhile" : w.mut ? "only removals happened meanwhile" : "the map was not modified meanwhile");
		return;
	}
	if (!w.ins)
		for (int k = 0; k < R.nkeys; k++)
			if ((w.k_all & bit(k)) && w.ret[k] != 1) {
				fail("iter-duplicate-key", R.site_next, "op %zu: %s returned \"%s\" %u times although only removals happened during the iteration",
				     opi, how, printable(kstr(k)).c_str(), (unsigned)w.ret[k]);
				return;
			}
}

static void walker_begin(Walker &w, uint64_t scope)
{
	w.open = true; w.completed = false;
	w.parked = -1; w.parked_removed = false;
	w.scope = scope;
	w.k_all = w.k_ever = R.present & scope;
	w.k_ever_all = R.present;
	w.retmask = 0;
	memset(w.ret, 0, sizeof w.ret);
	w.ins = w.mut = false;
	w.nret = 0;
}

static void walker_free(Walker &w)
{
	if (walking(w)) {
		count(c_abandon);
		if (R.impl == IMPL_HASH && w.parked >= 0) R.stuck |= bit(w.parked);
		if (w.parked >= 0 && !w.parked_removed) R.leaked |= bit(w.parked);
	}
	TRACE("   walker %d iter_free%s", (int)(&w - R.w), walking(w) ? " (abandoned)" : "");
	qb_map_iter_free(w.it);
	w.it = NULL;
	free(w.prefix);
	w.prefix = NULL;
	w.open = false;
	w.parked = -1;
}

static void walker_next(Walker &w, int64_t n, size_t opi)
{
	if (n < 1) n = 1;
	if (n > 64) n = 64;
	for (int64_t j = 0; j < n && !failed() && !w.completed; j++) {
		void *v = NULL;
		const char *s = qb_map_iter_next(w.it, &v);
		if (!s) { judge_completed(w, opi, "qb_map_iter_next"); break; }
		returned_key(w, s, v, opi, "qb_map_iter_next");
	}
}

static int32_t foreach_cb(const char *key, void *value, void *ud)
{
	Walker &w = R.w[MAXW];
	size_t opi = (size_t)(uintptr_t)ud;
	if (failed()) return 1;
	R.fe_step++;
	returned_key(w, key, value, opi, "qb_map_foreach");
	if (failed()) return 1;
	int k = w.parked;
	if (R.fe_rm_every > 0 && R.fe_step % (uint32_t)R.fe_rm_every == 0 && ((R.present >> k) & 1)) {
		// the documented use: delete the current item from inside the iteration
		if (do_rm(k, opi)) count(c_foreach_rm);
	}
	if (R.fe_abort > 0 && R.fe_step >= (uint32_t)R.fe_abort) {
		if (R.av_stuck && R.impl == IMPL_HASH && !((R.present >> k) & 1)) return 0;
		R.fe_aborted = true;
		return 1;
	}
	return 0;
}

// full comparison with the model; only legal to judge when no iterator is open
static void quiescent_check(size_t opi)
{
	count(c_quiescent);
	TRACE("op %zu: quiescent check, %d keys present", opi, __builtin_popcountll(R.present));
	for (int k = 0; k < R.nkeys && !failed(); k++) {
		void *v = qb_map_get(R.map, kp(k, 1));
		bool pres = (R.present >> k) & 1;
		void *want = pres ? (void *)&g_vals[R.val[k]] : NULL;
		if (v == want) continue;
		if (pres && !v)
			fail("present-key-missing", R.site_get, "op %zu: no iterator open: get(\"%s\") returned NULL but the key was put and not removed",
			     opi, printable(kstr(k)).c_str());
		else if (!pres)
			fail("removed-key-still-found", R.site_get, "op %zu: no iterator open: get(\"%s\") returned value #%ld although the key %s",
			     opi, printable(kstr(k)).c_str(), serial_of(v), (R.ever_put & bit(k)) ? "was removed" : "was never put");
		else
			fail("wrong-value", R.site_get, "op %zu: no iterator open: get(\"%s\") returned value #%ld, expected #%u", opi,
			     printable(kstr(k)).c_str(), serial_of(v), R.val[k]);
	}
	if (failed()) return;
	qb_map_iter_t *it = qb_map_iter_create(R.map);
	if (!it) { fail("iter-create-failed", R.site_next, "op %zu: qb_map_iter_create returned NULL", opi); return; }
	uint64_t seen = 0;
	int guard = 4 * R.nkeys + 16;
	for (;;) {
		void *v = NULL;
		const char *s = qb_map_iter_next(it, &v);
		if (!s) break;
		if (--guard < 0) { fail("iteration-does-not-end", R.site_next, "op %zu: fresh iteration returned more than %d keys", opi, 4 * R.nkeys + 16); break; }
		int k = find_key(s);
		if (k < 0) { fail("iter-returned-unknown-key", R.site_next, "op %zu: fresh iteration returned key \"%s\"", opi, printable(s).c_str()); break; }
		if (!((R.present >> k) & 1)) {
			fail("removed-key-still-iterated", R.site_next, "op %zu: no other iterator open: fresh iteration returned \"%s\" although the key %s",
			     opi, printable(s).c_str(), (R.ever_put & bit(k)) ? "was removed" : "was never put");
			break;
		}
		if (seen & bit(k)) { fail("iter-duplicate-key", R.site_next, "op %zu: fresh iteration of an unchanging map returned \"%s\" twice", opi, printable(s).c_str()); break; }
		seen |= bit(k);
		if (v != (void *)&g_vals[R.val[k]]) {
			fail("wrong-value", R.site_next, "op %zu: fresh iteration returned \"%s\" with value #%ld, expected #%u", opi,
			     printable(s).c_str(), serial_of(v), R.val[k]);
			break;
		}
	}
	if (failed()) return;        // map state is suspect: leave the iterator alone
	qb_map_iter_free(it);
	if (seen != R.present) {
		int k = __builtin_ctzll(R.present & ~seen);
		fail("present-key-not-iterated", R.site_next, "op %zu: no other iterator open: fresh iteration did not return \"%s\"", opi,
		     printable(kstr(k)).c_str());
		return;
	}
	size_t c = qb_map_count_get(R.map);
	if (c != (size_t)__builtin_popcountll(R.present))
		fail("count-mismatch", R.site_count, "op %zu: no iterator open: count is %zu but %d keys are present (get and iteration agree with the model)",
		     opi, c, __builtin_popcountll(R.present));
}

static int nth_set(uint64_t m, int64_t j)
{
	int c = __builtin_popcountll(m);
	if (!c) return -1;
	j %= c; if (j < 0) j += c;
	for (int k = 0; k < 64; k++)
		if ((m >> k) & 1) { if (!j) return k; j--; }
	return -1;
}

// ------------------------------------------------------------------ watchdog
// A corrupted map can make a library call spin for ever, and workers have no other watchdog. Every run arms a
// CPU-time timer (user time of this process, so machine load does not matter; a run needs well under a
// millisecond). When it fires the run is abandoned where it is (the map is leaked; a worker is recycled after
// any violation) and reported as a hang.
#define WATCHDOG_CPU_S 2
static sigjmp_buf g_wd_jmp;
static volatile sig_atomic_t g_wd_armed;
static volatile size_t g_cur_op;
static void wd_handler(int)
{
	if (g_wd_armed) { g_wd_armed = 0; siglongjmp(g_wd_jmp, 1); }
}
static void wd_timer(int seconds)
{
	struct itimerval tv;
	memset(&tv, 0, sizeof tv);
	tv.it_value.tv_sec = seconds;
	setitimer(ITIMER_VIRTUAL, &tv, NULL);
}

// ------------------------------------------------------------------ interpreter
static void run_plan(const RunSpec &spec);
static void run(const char *, const RunSpec &spec)
{
	struct sigaction sa, old;
	memset(&sa, 0, sizeof sa);
	sa.sa_handler = wd_handler;
	sigaction(SIGVTALRM, &sa, &old);
	if (sigsetjmp(g_wd_jmp, 1) == 0) {
		g_wd_armed = 1;
		wd_timer(WATCHDOG_CPU_S);
		run_plan(spec);
		g_wd_armed = 0;
		wd_timer(0);
	} else {
		wd_timer(0);
		char site[64];
		snprintf(site, sizeof site, "op:%s[%s]",
			 g_cur_op < spec.plan.ops.size() ? op_names[spec.plan.ops[g_cur_op].kind % K_N] : "end-of-run-checks", impl_names[R.impl]);
		fail("hang:cpu-time", site, "op %zu: the run was still executing after %d s of CPU time (a run normally needs under a millisecond)",
		     (size_t)g_cur_op, WATCHDOG_CPU_S);
		result().steps = spec.plan.ops.size();
		result().fingerprint = result().ev_hash;
	}
	sigaction(SIGVTALRM, &old, NULL);
}

static void run_plan(const RunSpec &spec)
{
	const Plan &p = spec.plan;
	build_universe();
	g_trace = getenv("MAPITER_TRACE") != NULL;
	memset(&R, 0, sizeof R);
	R.impl = (int)p.get("impl", 0);
	if (R.impl < 0 || R.impl > 2) R.impl = 0;
	R.nkeys = (int)p.get("nkeys", 8);
	if (R.nkeys < 1) R.nkeys = 1;
	if (R.nkeys > 40) R.nkeys = 40;
	if ((size_t)R.nkeys > g_master.size()) R.nkeys = (int)g_master.size();
	R.av_ghost = (R.impl == IMPL_HASH && p.get("av_ghost_h") != 0) || (R.impl == IMPL_TRIE && p.get("av_ghost_t") != 0); R.av_stuck = p.get("av_stuck") != 0; R.av_sl = p.get("av_sl") != 0; R.av_sl_last = p.get("av_sl_last") != 0;
	R.av_trm = p.get("av_trm") != 0; R.av_tsplit = p.get("av_tsplit") != 0;
	count(c_runs[R.impl]);
	const char *in = impl_names[R.impl];
	snprintf(R.site_get, sizeof R.site_get, "qb_map_get[%s]", in);
	snprintf(R.site_rm, sizeof R.site_rm, "qb_map_rm[%s]", in);
	snprintf(R.site_count, sizeof R.site_count, "qb_map_count_get[%s]", in);
	snprintf(R.site_next, sizeof R.site_next, "qb_map_iter_next[%s]", in);
	snprintf(R.site_notify, sizeof R.site_notify, "qb_map_notify[%s]", in);
	// universe of this run: whole key families in seeded order until nkeys are chosen
	{
		Rng kr((uint64_t)p.get("kseed", 1) * 0x9e3779b97f4a7c15ULL + 17);
		std::vector<int> fams;
		for (int f = 0; f < g_nfam; f++) fams.push_back(f);
		for (size_t n = fams.size(); n > 1; n--) std::swap(fams[n - 1], fams[kr.below(n)]);
		int got = 0;
		for (size_t fi = 0; fi < fams.size() && got < R.nkeys; fi++) {
			std::vector<int> members;
			for (size_t m = 0; m < g_master.size(); m++) if (g_family[m] == fams[fi]) members.push_back((int)m);
			for (size_t n = members.size(); n > 1; n--) std::swap(members[n - 1], members[kr.below(n)]);
			for (size_t m = 0; m < members.size() && got < R.nkeys; m++) R.uni[got++] = members[m];
		}
		R.nkeys = got;
	}
	memset(g_val_freed, 0, sizeof g_val_freed);
	if (g_trace) {
		std::string u;
		for (int k = 0; k < R.nkeys; k++) { char b[16]; snprintf(b, sizeof b, " %d=\"", k); u += b; u += printable(kstr(k)); u += "\""; }
		TRACE("%s, universe:%s", impl_names[R.impl], u.c_str());
	}

	switch (R.impl) {
	case IMPL_HASH: { int64_t o = p.get("order", 0); if (o < 0) o = 0; if (o > 4096) o = 4096; R.map = qb_hashtable_create((size_t)o); break; }
	case IMPL_SKIP: R.map = qb_skiplist_create(); break;
	default: R.map = qb_trie_create(); break;
	}
	if (!R.map) { fail("create-failed", "qb_map_create", "map constructor returned NULL"); return; }
	// qb_skiplist_create() reseeds the C library generator from the clock: pin it again
	srandom((unsigned)p.get("rseed", 1));
	int32_t nr = qb_map_notify_add(R.map, NULL, free_cb, QB_MAP_NOTIFY_FREE, NULL);
	if (nr != 0) { fail("notify-add-failed", R.site_notify, "qb_map_notify_add(QB_MAP_NOTIFY_FREE) returned %d", nr); return; }
	for (int n = 0; n <= MAXW; n++) R.w[n].parked = -1;

	for (size_t i = 0; i < p.ops.size() && !failed(); i++) {
		const Op &op = p.ops[i];
		g_cur_op = i;
		ev(100 + (uint32_t)op.kind, op.task, op.a[0], op.a[1]);
		int wi = op.task;
		int64_t a0 = op.a[0];
		switch (op.kind) {
		case K_PUT: {
			// a[1]: 0 = key a[0] exactly, 1 = the a[0]-th absent key (insert), 2 = the a[0]-th present key (replace)
			uint64_t all = R.nkeys >= 64 ? ~0ULL : (bit(R.nkeys) - 1);
			int k = op.a[1] == 1 ? nth_set(all & ~R.present, a0) : op.a[1] == 2 ? nth_set(R.present, a0) : -1;
			if (k < 0) k = (int)(((a0 % R.nkeys) + R.nkeys) % R.nkeys);
			do_put(k, (int)(op.a[2] & 1), i);
			break; }
		case K_RM: {
			// a[1]: 0 = key a[0] exactly, 1 = the a[0]-th present key, 2 = the a[0]-th absent key
			uint64_t all = R.nkeys >= 64 ? ~0ULL : (bit(R.nkeys) - 1);
			int k = op.a[1] == 1 ? nth_set(R.present, a0) : op.a[1] == 2 ? nth_set(all & ~R.present, a0) : -1;
			if (k < 0) k = (int)(((a0 % R.nkeys) + R.nkeys) % R.nkeys);
			do_rm(k, i);
			break; }
		case K_RM_PARKED: {
			int t = (int)a0;
			if (t < 1 || t >= MAXW || !walking(R.w[t]) || R.w[t].parked < 0) { skip(2); break; }
			do_rm(R.w[t].parked, i);
			break; }
		case K_RM_ALL: {
			// a[0]: 0 ascending, 1 descending, 2 keys walkers are positioned on last, 3 those first
			uint64_t parked = 0;
			for (int n = 1; n < MAXW; n++) if (walking(R.w[n]) && R.w[n].parked >= 0) parked |= bit(R.w[n].parked);
			std::vector<int> order;
			for (int k = 0; k < R.nkeys; k++) if ((R.present >> k) & 1) order.push_back(k);
			if (a0 == 1) std::reverse(order.begin(), order.end());
			else if (a0 == 2 || a0 == 3) {
				std::vector<int> f, l;
				for (int k : order) (((parked >> k) & 1) == (a0 == 3) ? f : l).push_back(k);
				order = f; order.insert(order.end(), l.begin(), l.end());
			}
			for (size_t n = 0; n < order.size() && !failed(); n++) do_rm(order[n], i);
			break; }
		case K_GET: {
			int k = (int)(((a0 % R.nkeys) + R.nkeys) % R.nkeys);
			void *v = qb_map_get(R.map, kp(k, (int)(i & 1)));
			long sv = v ? serial_of(v) : 0;
			ev(205, k, sv);
			TRACE("op %zu: get(\"%s\") = #%ld", i, printable(kstr(k)).c_str(), sv);
			if (v && (sv < 0 || (uint32_t)sv > R.nserial)) {
				fail("get-returned-unknown-value", R.site_get, "op %zu: get(\"%s\") returned a pointer that was never put", i, printable(kstr(k)).c_str());
				break;
			}
			if (v && g_val_freed[sv]) {
				fail("get-returned-freed-value", R.site_get, "op %zu: get(\"%s\") returned value #%ld after it was announced through QB_MAP_NOTIFY_FREE",
				     i, printable(kstr(k)).c_str(), sv);
				break;
			}
			if (any_iter_open()) break;
			bool pres = (R.present >> k) & 1;
			void *want = pres ? (void *)&g_vals[R.val[k]] : NULL;
			if (v != want)
				fail(pres ? (v ? "wrong-value" : "present-key-missing") : "removed-key-still-found", R.site_get,
				     "op %zu: no iterator open: get(\"%s\") returned value #%ld, expected %s#%u", i, printable(kstr(k)).c_str(), sv,
				     pres ? "" : "NULL ", pres ? R.val[k] : 0);
			break; }
		case K_COUNT: {
			size_t c = qb_map_count_get(R.map);
			ev(206, (int64_t)c);
			TRACE("op %zu: count = %zu (model %d)", i, c, __builtin_popcountll(R.present));
			if (any_iter_open()) break;
			if (c != (size_t)__builtin_popcountll(R.present))
				fail("count-mismatch", R.site_count, "op %zu: no iterator open: count is %zu but %d keys are present", i, c,
				     __builtin_popcountll(R.present));
			break; }
		case K_CHECK:
			if (any_iter_open()) { skip(3); break; }
			quiescent_check(i);
			break;
		case K_ITER_CREATE: {
			if (wi < 1 || wi >= MAXW || R.w[wi].open) { skip(4); break; }
			if (R.av_ghost && ghost_mask()) { avoided(7); break; }
			Walker &w = R.w[wi];
			uint64_t all = R.nkeys >= 64 ? ~0ULL : (bit(R.nkeys) - 1);
			uint64_t scope = all;
			if (a0 && R.impl == IMPL_TRIE) {
				int k = (int)(((op.a[1] % R.nkeys) + R.nkeys) % R.nkeys);
				const char *ks = kstr(k);
				size_t len = strlen(ks);
				size_t pl = op.a[2] < 1 ? 1 : (size_t)op.a[2];
				if (pl > len) pl = len;
				bool ext = op.a[3] != 0;
				w.prefix = (char *)malloc(pl + (ext ? 1 : 0) + 1);     // exact size: over-reads are visible
				memcpy(w.prefix, ks, pl);
				if (ext) w.prefix[pl++] = 'q';
				w.prefix[pl] = 0;
				scope = 0;
				for (int j = 0; j < R.nkeys; j++) if (!strncmp(kstr(j), w.prefix, pl)) scope |= bit(j);
				w.it = qb_map_pref_iter_create(R.map, w.prefix);
				TRACE("op %zu: walker %d pref_iter_create(\"%s\")", i, wi, printable(w.prefix).c_str());
				count(c_prefix);
			} else {
				w.it = qb_map_iter_create(R.map);
				TRACE("op %zu: walker %d iter_create", i, wi);
			}
			if (!w.it) { fail("iter-create-failed", R.site_next, "op %zu: iterator constructor returned NULL", i); break; }
			walker_begin(w, scope);
			int nopen = 0;
			for (int n = 1; n < MAXW; n++) if (R.w[n].open) nopen++;
			if (nopen >= 2) count(c_multi_open);
			break; }
		case K_ITER_NEXT:
			if (wi < 1 || wi >= MAXW || !R.w[wi].open || R.w[wi].completed) { skip(5); break; }
			walker_next(R.w[wi], a0, i);
			break;
		case K_ITER_FREE: {
			if (wi < 1 || wi >= MAXW || !R.w[wi].open) { skip(6); break; }
			Walker &w = R.w[wi];
			if (R.av_stuck && R.impl == IMPL_HASH && walking(w) && w.parked >= 0 && w.parked_removed) { avoided(8); break; }
			walker_free(w);
			break; }
		case K_FOREACH: {
			if (wi < 1 || wi >= MAXW || R.w[wi].open) { skip(7); break; }
			if (R.av_ghost && ghost_mask()) { avoided(9); break; }
			Walker &w = R.w[MAXW];
			uint64_t all = R.nkeys >= 64 ? ~0ULL : (bit(R.nkeys) - 1);
			walker_begin(w, all);
			R.in_foreach = true;
			R.fe_abort = a0; R.fe_rm_every = op.a[1]; R.fe_step = 0; R.fe_aborted = false;
			int nopen = 1;
			for (int n = 1; n < MAXW; n++) if (R.w[n].open) nopen++;
			if (nopen >= 2) count(c_multi_open);
			TRACE("op %zu: walker %d foreach(abort_after=%lld, rm_every=%lld)", i, wi, (long long)a0, (long long)op.a[1]);
			qb_map_foreach(R.map, foreach_cb, (void *)(uintptr_t)i);
			R.in_foreach = false;
			if (!failed()) {
				if (R.fe_aborted) {
					count(c_foreach_abort);
					ev(212, (int64_t)w.nret);
					// map.c frees its iterator while it is positioned on the current key
					if (R.impl == IMPL_HASH && w.parked >= 0) R.stuck |= bit(w.parked);
					if (w.parked >= 0 && !w.parked_removed) R.leaked |= bit(w.parked);
				} else {
					judge_completed(w, i, "qb_map_foreach");
				}
			}
			w.open = false; w.parked = -1;
			break; }
		default:
			skip(8);
			break;
		}
	}

	Result &res = result();
	res.steps = p.ops.size();
	g_cur_op = p.ops.size();
	if (!failed()) {
		// the iterators go away ...
		for (int n = 1; n < MAXW && !failed(); n++) {
			Walker &w = R.w[n];
			if (!w.open) continue;
			ev(120, n);
			if (R.av_stuck && R.impl == IMPL_HASH && walking(w) && w.parked >= 0 && w.parked_removed)
				walker_next(w, 64, p.ops.size());      // avoid switch: finish instead of abandoning
			if (!failed()) walker_free(w);
		}
		// ... and the map must be a dictionary holding the surviving entries
		if (!failed()) quiescent_check(p.ops.size());
		for (int k = 0; k < R.nkeys && !failed(); k++) do_rm(k, p.ops.size() + 1);
		if (!failed()) quiescent_check(p.ops.size() + 2);
		if (!failed()) { qb_map_destroy(R.map); R.map = NULL; }
	}
	set_nontrivial(R.judged_mut >= 1);
	res.fingerprint = res.ev_hash;
}

static const Harness H = {
	"map_iter", op_names, K_N, NULL, 0, gen, run, init,
	"a run is one seeded interleaving (the plan order) of one mutator and 1..4 walkers on a fresh map of one of the three "
	"implementations; non-trivial = at least one iteration ran to completion, was judged, and the map was mutated while it was "
	"in progress; distinct = distinct hash of the (task, operation, arguments, outcome) sequence"
};

int main(int argc, char **argv) { return harness_main(argc, argv, &H); }
