// C01: one writer task + one reader task on a shared (non-overwriting) ring.
// Every access the ring code makes to the shared header / data words and every
// semaphore call is a scheduling point; the seeded scheduler decides the
// interleaving. Reference model: a FIFO of committed chunks.
#include "ring_common.h"
#include "../simk/sched.h"
#include "../simk/shim.h"
#include <errno.h>
#include <stdlib.h>

#define SIMK_NO_RENAME 1
#include "../simk/simk_rename.h"
extern "C" {
#include "ringbuffer_int.h"
}
#ifndef HARNESS_NAME
#define HARNESS_NAME "ring_conc"
#endif

using namespace simk;
using namespace ringh;

enum { K_W_WRITE, K_W_ALLOC_COMMIT, K_W_SLEEP, K_R_READ, K_R_PEEK, K_R_RECLAIM, K_R_SLEEP, K_N };
static const char *const op_names[K_N] = { "w_write", "w_alloc_commit", "w_sleep", "r_read", "r_peek", "r_reclaim", "r_sleep" };

#define MAGIC 0xA1A1A1A1u
#define MAGIC_ALLOC 0xA110CED0u

static int p_saw_alloc, p_saw_wp_no_magic, p_refused, p_refused_tight, p_wrap_payload, p_wrap_header, p_early_read,
	p_nothing, p_enobufs, p_reader_between_dead_and_rp, p_peek_pair, p_handoff_in_op;

static void init(const char *)
{
	p_saw_alloc = counter_id("probe", "reader_observed_ALLOC_magic");
	p_saw_wp_no_magic = counter_id("probe", "reader_observed_write_pt_advanced_before_magic");
	p_refused = counter_id("probe", "write_refused");
	p_refused_tight = counter_id("probe", "refused_within_24_bytes_of_contract");
	p_wrap_payload = counter_id("probe", "payload_straddles_wrap");
	p_wrap_header = counter_id("probe", "header_straddles_wrap");
	// not a reachability probe: with a correct library nothing can run between the publishing store (the last access
	// commit makes on a ring without semaphore) or the semaphore post and the return of the write call; counted to
	// show how a library that publishes early would be met (the chunk then counts as consumed when the write returns)
	p_early_read = counter_id("stat", "read_completed_before_commit_returned");
	p_nothing = counter_id("probe", "read_reported_nothing");
	p_enobufs = counter_id("probe", "read_enobufs");
	p_reader_between_dead_and_rp = counter_id("probe", "writer_ran_between_DEAD_and_read_pt_advance");
	counter_id("fault", "eintr");
	p_peek_pair = counter_id("probe", "peek_reclaim_pair");
	p_handoff_in_op = counter_id("probe", "handoff_inside_operation");
}

// ------------------------------------------------------------------ per-run state
struct St {
	const RunSpec *spec = NULL;
	uint32_t S = 0, ws = 0;
	bool sem = false;
	qb_ringbuffer_t *wrb = NULL, *rrb = NULL;
	int wtask = -1, rtask = -1;
	std::deque<Chunk> committed;       // commit returned, reader op not yet returned
	uint64_t used = 0;                 // sum(len+16) over committed
	bool inflight = false; Chunk fl = { 0, 0 }; bool fl_consumed = false; uint32_t fl_start = 0;   // writer's current operation
	uint64_t wserial = 0;
	uint64_t nwrites = 0, nreads = 0;
	bool peeked = false; Chunk pk = { 0, 0 }; const uint8_t *pk_ptr = NULL;
	// ordering-strength bookkeeping
	bool w_fence_since_store = false, w_pending_plain_magic = false, w_pending_fence_ok = false;
	bool r_pending_plain_magic = false;
	bool writer_done = false;
	bool reader_in_dead_window = false;
};
static St *Gp;
#define G (*Gp)

static inline uint32_t hdr_rp() { return G.wrb->shared_hdr->read_pt; }
static inline uint32_t hdr_wp() { return G.wrb->shared_hdr->write_pt; }

// The publish-edge memory-order check needs the order of every atomic access, which only the
// tsan-instrumented build reports (the sancov build sees atomic accesses as plain ones).
#ifndef ORDER_CHECK
#define ORDER_CHECK 0
#endif

static void check_pending_plain_magic()
{
	if (ORDER_CHECK && G.w_pending_plain_magic) {
		uint32_t w = (G.fl_start + 1) % G.ws;
		if (G.wrb->shared_data[w] == MAGIC && !G.w_pending_fence_ok)
			fail("publish-edge-ordering", "qb_rb_chunk_commit",
			     "chunk #%llu was published by a plain store with no release fence after the payload/size/write_pt stores",
			     (unsigned long long)G.fl.serial);
		G.w_pending_plain_magic = false;
	}
}

static void hook(const void *addr, int size, int is_write, int order, int region, size_t off)
{
	(void)addr; (void)size;
	int t = cur_task();
	if (region < 0) {
		// a fence
		if (t == G.wtask && order >= 3) G.w_fence_since_store = true;
		if (t == G.rtask && (order == 2 || order >= 4)) G.r_pending_plain_magic = false;
		return;
	}
	if (region < 2) {
		// header word
		if (t == G.wtask && (is_write & 1)) { check_pending_plain_magic(); G.w_fence_since_store = false; }
		if (t == G.rtask && (is_write & 1) && off == 4) G.reader_in_dead_window = false;   // read_pt store
		return;
	}
	uint32_t w = (uint32_t)((off / 4) % G.ws);
	if (t == G.wtask) {
		check_pending_plain_magic();
		if (G.reader_in_dead_window) count(p_reader_between_dead_and_rp);
		if (is_write & 1) {
			// a successful write must never touch a word of a chunk that has not been read yet:
			// live words are [read_pt, start of the writer's current chunk)
			uint32_t rp = hdr_rp();
			uint32_t live = (G.fl_start + G.ws - rp) % G.ws;
			uint32_t d = (w + G.ws - rp) % G.ws;
			if (G.inflight && d < live)
				fail("write-into-unread-chunk", "qb_rb_chunk_write",
				     "writer stored to data word %u while words [%u,%u) hold unread chunks (chunk #%llu len %u)",
				     w, rp, G.fl_start, (unsigned long long)G.fl.serial, G.fl.len);
			if (G.inflight && w == (G.fl_start + 1) % G.ws) {
				if (order >= 0) {
					if (ORDER_CHECK && (uint32_t)g_access_value == MAGIC && !(order >= 3 || G.w_fence_since_store))
						fail("publish-edge-ordering", "qb_rb_chunk_commit",
						     "chunk #%llu published with memory order %d (< release) and no release fence",
						     (unsigned long long)G.fl.serial, order);
				} else {
					G.w_pending_plain_magic = true;
					G.w_pending_fence_ok = G.w_fence_since_store;
				}
			}
			G.w_fence_since_store = false;
		}
	} else if (t == G.rtask) {
		uint32_t rp = hdr_rp();
		if (!(is_write & 1)) {
			if (w == (rp + 1) % G.ws) {
				uint32_t v = G.rrb->shared_data[w];
				if (v == MAGIC_ALLOC) count(p_saw_alloc);
				if (v != MAGIC && hdr_wp() != rp) count(p_saw_wp_no_magic);
				if (v == MAGIC && hdr_wp() != rp) {
					if (order == 1 || order == 2 || order >= 4) G.r_pending_plain_magic = false;
					else G.r_pending_plain_magic = true;
				}
			} else if (ORDER_CHECK && G.r_pending_plain_magic) {
				fail("publish-edge-ordering", "qb_rb_chunk_read",
				     "reader took the chunk magic with a non-acquire load and touched chunk data (word %u) with no acquire fence in between", w);
			}
		} else {
			// reader stores only to the header words of the chunk it is reclaiming
			if (w == (rp + 1) % G.ws) G.reader_in_dead_window = true;
		}
	}
}

// ------------------------------------------------------------------ generation
static uint32_t pick_len(Rng &r, uint32_t S, uint64_t used_est, bool small_bias)
{
	uint32_t k = (uint32_t)r.below(100);
	if (k < 30) { static const uint32_t sm[] = { 0, 1, 2, 3, 4, 5, 7, 8, 9, 12, 13, 16, 17 }; return sm[r.below(13)]; }
	if (k < 60 || small_bias) return (uint32_t)r.below(97);
	if (k < 68) { uint32_t d = (uint32_t)r.below(9); return S > d ? S - d : 0; }
	if (k < 74) { int64_t v = (int64_t)S / 2 + r.range(-3, 3); return v < 0 ? 0 : (uint32_t)v; }
	if (k < 84) return (uint32_t)r.below((uint64_t)S + 1);
	if (k < 87) return S + 1 + (uint32_t)r.below(4);
	int64_t rem = (int64_t)S - (int64_t)used_est - 16 + r.range(-1, 1);
	if (rem < 0) rem = (int64_t)r.below(17);
	return (uint32_t)rem;
}

static void gen(const char *, RunSpec &spec)
{
	Rng r = stream(spec.seed, "data");
	Plan &p = spec.plan;
	long page = 4096;
	uint32_t S;
	uint32_t sk = (uint32_t)r.below(100);
	if (sk < 50) S = (uint32_t)(r.range(1, 3) * page - 13 - r.range(0, 8));
	else if (sk < 80) S = (uint32_t)r.range(16, 400);
	else S = (uint32_t)r.range(1, 3 * page);
	p.set("size", S);
	p.set("sem", r.chance(1, 2));
	p.set("stride", (int64_t)(uint64_t[]){ 1, 1, 2, 8, 64 }[r.below(5)]);
	p.set("rate_eintr", r.chance(1, 3) ? (int64_t)r.range(500, 6000) : 0);
	uint64_t real = (((uint64_t)S + 13 + 4095) / 4096) * 4096;
	// pre-position the indices close to the wrap point in most runs
	uint32_t pre = 0;
	if (r.chance(3, 4)) {
		uint64_t target = real - (uint64_t)r.range(0, 200);
		if (r.chance(1, 3)) target = real - (uint64_t)(4 * r.range(0, 3));
		if (target > 8 && target - 8 <= S) pre = (uint32_t)(target - 8);
	}
	p.set("pre", pre);
	bool small_bias = r.chance(1, 2);
	int nw = (int)r.range(1, 40), nr = (int)r.range(1, 60);
	if (r.chance(1, 2)) { nw = (int)r.range(1, 8); nr = (int)r.range(1, 10); }
	uint64_t used_est = 0;
	uint64_t budget_words = 0;
	for (int n = 0; n < nw; n++) {
		if (r.chance(1, 12)) { p.add(0, K_W_SLEEP, r.range(1, 20000)); continue; }
		uint32_t len = pick_len(r, S, used_est, small_bias);
		if (budget_words > 6000 && len > 64) len = (uint32_t)r.below(64);   // keep the run within the step cap
		budget_words += len / 4 + 12;
		p.add(0, r.chance(3, 4) ? K_W_WRITE : K_W_ALLOC_COMMIT, len);
		if (used_est + len + 16 <= S) used_est += len + 16;
		if (r.chance(1, 3)) used_est = used_est > 40 ? used_est - 40 : 0;
	}
	for (int n = 0; n < nr; n++) {
		uint32_t k = (uint32_t)r.below(100);
		static const int64_t tmo[] = { 0, 0, 0, 1, 5, 50, -1 };
		int64_t t = tmo[r.below(7)];
		if (k < 8) p.add(1, K_R_SLEEP, r.range(1, 20000));
		else if (k < 70) {
			int64_t cap = (int64_t)S + 64;
			if (r.chance(1, 8)) cap = (int64_t)r.below(64);
			p.add(1, K_R_READ, cap, t);
		} else {
			p.add(1, K_R_PEEK, t);
			if (r.chance(7, 8)) p.add(1, K_R_RECLAIM);
		}
	}
}

// ------------------------------------------------------------------ tasks
static void writer_main(void *)
{
	const Plan &p = G.spec->plan;
	for (size_t i = 0; i < p.ops.size(); i++) {
		const Op &op = p.ops[i];
		if (op.task != 0) continue;
		uint64_t h0 = handoffs();
		if (op.kind == K_W_SLEEP) {
			struct timespec ts = { 0, (long)(op.a[0] > 0 ? op.a[0] : 1) * 1000 };
			simk_nanosleep(&ts, NULL);
			continue;
		}
		uint32_t len = (uint32_t)op.a[0];
		if (len > (1u << 20)) len = 1u << 20;
		uint64_t serial = ++G.wserial;
		bool must = (G.committed.empty() && len <= G.S) || (G.used + len + 16 <= G.S);
		G.fl.serial = serial; G.fl.len = len; G.fl_consumed = false;
		G.fl_start = hdr_wp();
		G.inflight = true;
		ev(200 + (uint32_t)op.kind, len, (int64_t)serial);
		ssize_t r;
		if (op.kind == K_W_WRITE) {
			uint8_t *src = (uint8_t *)malloc(len ? len : 1);
			fill_payload(src, serial, len);
			r = qb_rb_chunk_write(G.wrb, src, len);
			free(src);
		} else {
			errno = 0;
			uint8_t *d = (uint8_t *)qb_rb_chunk_alloc(G.wrb, len);
			if (!d) r = -errno;
			else {
				uint8_t tmp[4];
				for (uint32_t o = 0; o < len; o += 4) {
					uint32_t k = len - o < 4 ? len - o : 4;
					for (uint32_t b = 0; b < k; b++) tmp[b] = payload_byte(serial, len, o + b);
					access_yield(d + o, (int)k, 1, -1);
					memcpy(d + o, tmp, k);
				}
				int32_t cr = qb_rb_chunk_commit(G.wrb, len);
				r = cr < 0 ? cr : (ssize_t)len;
			}
		}
		check_pending_plain_magic();
		ev(210, r);
		G.inflight = false;
		if (r == (ssize_t)len) {
			G.nwrites++;
			uint64_t real = (uint64_t)G.ws * 4, hb = (uint64_t)G.fl_start * 4;
			if (hb + 8 > real) count(p_wrap_header);
			if ((hb + 8) % real + len > real && len) count(p_wrap_payload);
			if (G.fl_consumed) count(p_early_read);
			else { G.committed.push_back(G.fl); G.used += (uint64_t)len + 16; }
		} else if (r == -EAGAIN) {
			count(p_refused);
			if (G.used + len + 16 <= (uint64_t)G.S + 24) count(p_refused_tight);
			if (G.fl_consumed) fail("refused-but-delivered", "qb_rb_chunk_write", "write #%llu returned -EAGAIN but the reader received it", (unsigned long long)serial);
			if (must) fail("refused-within-contract", "qb_rb_chunk_write",
				       "write #%llu of %u bytes refused although at most %llu bytes (16/chunk overhead) were unread of S=%u for the whole call",
				       (unsigned long long)serial, len, (unsigned long long)G.used, G.S);
		} else {
			fail("write-bad-return", "qb_rb_chunk_write", "write #%llu of %u bytes returned %zd", (unsigned long long)serial, len, r);
		}
		if (handoffs() != h0) count(p_handoff_in_op);
	}
	G.writer_done = true;
}

// the chunk a successful read must return
static bool expected_head(Chunk &c, bool &from_inflight)
{
	if (!G.committed.empty()) { c = G.committed.front(); from_inflight = false; return true; }
	if (G.inflight && !G.fl_consumed) { c = G.fl; from_inflight = true; return true; }
	return false;
}
static void pop_head(bool from_inflight)
{
	if (from_inflight) G.fl_consumed = true;
	else { G.used -= (uint64_t)G.committed.front().len + 16; G.committed.pop_front(); }
	G.nreads++;
}

static void reader_main(void *)
{
	const Plan &p = G.spec->plan;
	for (size_t i = 0; i < p.ops.size(); i++) {
		const Op &op = p.ops[i];
		if (op.task != 1) continue;
		uint64_t h0 = handoffs();
		switch (op.kind) {
		case K_R_SLEEP: {
			struct timespec ts = { 0, (long)(op.a[0] > 0 ? op.a[0] : 1) * 1000 };
			simk_nanosleep(&ts, NULL);
			break; }
		case K_R_READ: {
			if (G.peeked) break;       // documented use: reclaim the peeked chunk first
			size_t cap = (size_t)op.a[0];
			if (cap > (1u << 21)) cap = 1u << 21;
			int32_t tmo = (int32_t)op.a[1];
			if (!G.sem && tmo != 0) tmo = 0;       // without a semaphore there is nothing to wait on
			bool empty_at_start = G.committed.empty();
			uint8_t *out = (uint8_t *)malloc(cap ? cap : 1);
			ev(220, (int64_t)cap, tmo);
			ssize_t r = qb_rb_chunk_read(G.rrb, out, cap, tmo);
			ev(221, r);
			Chunk h; bool fi = false;
			bool have = expected_head(h, fi);
			if (r >= 0) {
				if (!have) fail("read-from-empty", "qb_rb_chunk_read", "read returned a %zd byte chunk but no write has been published", r);
				else if ((uint32_t)r != h.len) fail("read-wrong-length", "qb_rb_chunk_read", "read returned %zd bytes, expected chunk #%llu of %u bytes%s",
								    r, (unsigned long long)h.serial, h.len, fi ? " (commit still in progress)" : "");
				else {
					long bad = check_payload(out, h.serial, h.len);
					if (bad >= 0) fail("read-wrong-bytes", "qb_rb_chunk_read", "chunk #%llu len %u differs at byte %ld%s",
							   (unsigned long long)h.serial, h.len, bad, fi ? " (commit still in progress)" : "");
					pop_head(fi);
				}
			} else if (r == -ENOBUFS) {
				count(p_enobufs);
				if (!have || cap >= h.len) fail("spurious-enobufs", "qb_rb_chunk_read", "read(cap=%zu) returned -ENOBUFS but the head chunk has %u bytes (have=%d)", cap, have ? h.len : 0, have);
			} else {
				count(p_nothing);
				if (!empty_at_start)
					fail("missed-committed-chunk", "qb_rb_chunk_read",
					     "read(timeout=%d) returned %zd although chunk #%llu had been committed before the call started",
					     tmo, r, (unsigned long long)G.committed.front().serial);
			}
			free(out);
			break; }
		case K_R_PEEK: {
			if (G.peeked) break;
			int32_t tmo = (int32_t)op.a[0];
			if (!G.sem && tmo != 0) tmo = 0;
			bool empty_at_start = G.committed.empty();
			void *d = NULL;
			ev(222, tmo);
			ssize_t r = qb_rb_chunk_peek(G.rrb, &d, tmo);
			ev(223, r);
			Chunk h; bool fi = false;
			bool have = expected_head(h, fi);
			if (r > 0 || (r == 0 && have && h.len == 0 && d != NULL)) {
				if (!have) fail("read-from-empty", "qb_rb_chunk_peek", "peek returned a %zd byte chunk but no write has been published", r);
				else if ((uint32_t)r != h.len) fail("read-wrong-length", "qb_rb_chunk_peek", "peek returned %zd bytes, expected chunk #%llu of %u bytes", r, (unsigned long long)h.serial, h.len);
				else {
					long bad = check_payload((const uint8_t *)d, h.serial, h.len);
					if (bad >= 0) fail("read-wrong-bytes", "qb_rb_chunk_peek", "chunk #%llu len %u differs at byte %ld", (unsigned long long)h.serial, h.len, bad);
					G.peeked = true; G.pk = h; G.pk_ptr = (const uint8_t *)d;
				}
			} else {
				count(p_nothing);
				if (!empty_at_start)
					fail("missed-committed-chunk", "qb_rb_chunk_peek", "peek(timeout=%d) returned %zd although chunk #%llu had been committed before the call started",
					     tmo, r, (unsigned long long)G.committed.front().serial);
			}
			break; }
		case K_R_RECLAIM: {
			if (!G.peeked) break;
			// the chunk must have stayed intact while the writer kept going
			long bad = check_payload(G.pk_ptr, G.pk.serial, G.pk.len);
			if (bad >= 0) fail("unread-chunk-damaged", "qb_rb_chunk_write", "peeked chunk #%llu len %u was modified at byte %ld before it was reclaimed",
					   (unsigned long long)G.pk.serial, G.pk.len, bad);
			ev(224);
			qb_rb_chunk_reclaim(G.rrb);
			G.peeked = false;
			// the peeked chunk is the committed head unless it was taken while its commit was still in progress
			bool fi = G.committed.empty() || G.committed.front().serial != G.pk.serial;
			pop_head(fi);
			count(p_peek_pair);
			break; }
		}
		if (handoffs() != h0) count(p_handoff_in_op);
	}
}

static void on_deadlock()
{
	// only the reader can block for ever (semaphore wait with timeout -1)
	if (!G.committed.empty())
		fail("lost-wakeup", "qb_rb_chunk_read", "reader blocked for ever although chunk #%llu is committed and unread",
		     (unsigned long long)G.committed.front().serial);
}

static void run(const char *, const RunSpec &spec)
{
	const Plan &p = spec.plan;
	St st;
	Gp = &st;
	G.spec = &spec;
	G.S = (uint32_t)p.get("size", 100);
	G.sem = p.get("sem") != 0;
	shim_reset();
	shim_cfg().memcpy_stride_words = (int)p.get("stride", 1);
	shim_cfg().rate_eintr = (uint32_t)p.get("rate_eintr", 0);
	uint32_t fl = QB_RB_FLAG_SHARED_PROCESS | (G.sem ? 0 : QB_RB_FLAG_NO_SEMAPHORE);
	std::string name = ring_name("conc");
	// the reader side creates the ring (as the IPC server does for requests); the writer opens it
	G.rrb = qb_rb_open(name.c_str(), G.S, fl | QB_RB_FLAG_CREATE, 0);
	if (!G.rrb) { fail("open-failed", "qb_rb_open", "create failed errno=%d", errno); return; }
	G.wrb = qb_rb_open(name.c_str(), G.S, fl, 0);
	if (!G.wrb) { fail("open-failed", "qb_rb_open", "second open failed errno=%d", errno); qb_rb_close(G.rrb); return; }
	G.ws = G.rrb->shared_hdr->word_size;
	// move both indices to the requested offset before the tasks start
	uint32_t pre = (uint32_t)p.get("pre", 0);
	if (pre && pre <= G.S) {
		std::vector<uint8_t> b(pre);
		if (qb_rb_chunk_write(G.wrb, b.data(), pre) == (ssize_t)pre) {
			std::vector<uint8_t> o(pre);
			qb_rb_chunk_read(G.rrb, o.data(), pre, 0);
		}
	}
	SchedCfg sc;
	uint64_t expect = 60;
	for (size_t i = 0; i < p.ops.size(); i++) expect += 40 + (uint64_t)(p.ops[i].a[0] > 0 && p.ops[i].kind <= K_W_ALLOC_COMMIT ? p.ops[i].a[0] / 4 / p.get("stride", 1) : 0);
	sched_cfg_from_seed(spec.seed, 2, expect, 20000, sc);
	sched_begin(spec, sc);
	set_deadlock_handler(on_deadlock);
	access_region_add(G.wrb->shared_hdr, sizeof(struct qb_ringbuffer_shared_s));
	access_region_add(G.rrb->shared_hdr, sizeof(struct qb_ringbuffer_shared_s));
	access_region_add(G.wrb->shared_data, (size_t)G.ws * 8);
	access_region_add(G.rrb->shared_data, (size_t)G.ws * 8);
	g_access_hook = hook;
	G.wtask = task_create(1, writer_main, NULL, "writer");
	G.rtask = task_create(1, reader_main, NULL, "reader");
	sched_run();
	g_access_hook = NULL;
	bool torn = failed();
	sched_end();
	if (!torn) {
		// quiescence: drain; every successful write must come out exactly once, in order
		if (G.peeked) {
			qb_rb_chunk_reclaim(G.rrb);
			bool fi = G.committed.empty() || G.committed.front().serial != G.pk.serial;
			if (!fi) { G.used -= (uint64_t)G.committed.front().len + 16; G.committed.pop_front(); }
			G.peeked = false;
		}
		size_t cap = (size_t)G.S + 4096;
		for (int guard = 0; guard < 1000 && !failed(); guard++) {
			uint8_t *out = (uint8_t *)malloc(cap);
			ssize_t r = qb_rb_chunk_read(G.rrb, out, cap, 0);
			if (r < 0) { free(out); break; }
			if (G.committed.empty()) fail("read-from-empty", "qb_rb_chunk_read", "final drain returned a %zd byte chunk although every write had been read", r);
			else {
				Chunk h = G.committed.front();
				if ((uint32_t)r != h.len) fail("read-wrong-length", "qb_rb_chunk_read", "final drain returned %zd bytes, expected chunk #%llu of %u", r, (unsigned long long)h.serial, h.len);
				else if (check_payload(out, h.serial, h.len) >= 0) fail("read-wrong-bytes", "qb_rb_chunk_read", "final drain: chunk #%llu differs", (unsigned long long)h.serial);
				G.committed.pop_front();
			}
			free(out);
		}
		if (!failed() && !G.committed.empty())
			fail("chunk-lost", "qb_rb_chunk_read", "ring reports empty but chunk #%llu (and %zu more) was never returned",
			     (unsigned long long)G.committed.front().serial, G.committed.size() - 1);
		if (!failed() && G.sem) {
			ssize_t q = qb_rb_chunks_used(G.rrb);
			if (q != 0) fail("semaphore-count-drift", "qb_rb_chunk_commit", "semaphore value %zd after everything was read", q);
		}
	}
	qb_rb_close(G.wrb);
	qb_rb_close(G.rrb);
	set_nontrivial(G.nwrites >= 1 && G.nreads >= 1 && result().handoffs > 2);
	Gp = NULL;
}

static const Harness H = {
	HARNESS_NAME, op_names, K_N, shim_fault_names, F_N, gen, run, init,
	"a run is one seeded (workload, schedule, fault) triple: writer and reader tasks on one shared ring, preemptible at every "
	"access of ring code to the shared header/data words, every payload word copied and every semaphore call; non-trivial = at "
	"least one write and one read succeeded and the baton changed hands more than twice; distinct = distinct fingerprint of "
	"the (yield site, task switched to) sequence"
};

int main(int argc, char **argv) { return harness_main(argc, argv, &H); }
