// shared pieces of the ring-buffer harnesses (C01, C07, C11)
#pragma once
#include "../simk/simk.h"
#include <stdint.h>
#include <unistd.h>
#include <stdio.h>
#include <string.h>
#include <vector>
#include <deque>

extern "C" {
#include <qb/qbdefs.h>
#include <qb/qbrb.h>
}

namespace ringh {

static const uint32_t MARKERS[3] = { 0xA1A1A1A1u, 0xD0D0D0D0u, 0xA110CED0u };

// Every chunk's payload is a function of (serial, len): any returned byte is
// attributable to exactly one write and one offset.
static inline uint8_t payload_byte(uint64_t serial, uint32_t len, uint32_t off)
{
	// some chunks are made of the ring's own marker constants
	uint32_t style = (uint32_t)(serial % 7);
	if (style < 3 && off >= 8) {
		uint32_t m = MARKERS[style];
		return (uint8_t)(m >> (8 * (off & 3)));
	}
	if (off < 4) return (uint8_t)(serial >> (8 * off));
	if (off < 8) return (uint8_t)(len >> (8 * (off - 4)));
	uint64_t h = simk::mix64(serial * 0x100000001b3ULL + (off >> 3));
	return (uint8_t)(h >> (8 * (off & 7)));
}
static inline void fill_payload(uint8_t *dst, uint64_t serial, uint32_t len)
{
	for (uint32_t n = 0; n < len; n++) dst[n] = payload_byte(serial, len, n);
}
// returns -1 if equal, else first differing offset
static inline long check_payload(const uint8_t *src, uint64_t serial, uint32_t len)
{
	for (uint32_t n = 0; n < len; n++)
		if (src[n] != payload_byte(serial, len, n)) return (long)n;
	return -1;
}

struct Chunk { uint64_t serial; uint32_t len; };

static inline std::string ring_name(const char *tag)
{
	char b[96];
	snprintf(b, sizeof b, "simk-%d-%s", (int)getpid(), tag);
	return b;
}

} // namespace ringh
