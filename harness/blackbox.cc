// The dump-file world: C11 part 2 (a blackbox dump taken between two log calls holds an unbroken run of the
// newest records ending with the very last one) and C15 (dump + print reproduces every retained record;
// printing any file whatsoever ends with a result code: no crash, no out-of-bounds access, no shm leftovers).
//
// One simulator task runs the real log.c / log_blackbox.c / log_format.c / ringbuffer.c: qb_log_init, blackbox
// target of seeded size and line length, n log calls (serial in the line number and in the text, seeded
// priorities, function names, tags, formats, arguments, virtual timestamps), qb_log_blackbox_write_to_file at a
// seeded instant between two log calls, a fault program, qb_log_blackbox_print_from_file with stdout captured.
// The file layer is the libc seam: the dump's write()s and the printer's read()s are fault sites (short / failing /
// lost writes, short / failing reads; explicit fault records (task, kind, n-th call) generated from the seed);
// at-rest damage (truncation, field-targeted corruption with the header hash recomputed, byte flips, files that
// never were a dump) is done by the harness directly on the file between dump and print.
//
// Generator tokens (SIMK_AVOID, comma separated; each switches off the stimulus group that triggers one finding, see
// findings/known_findings.txt and replays/C15/known-B*.json, replays/C11/known-B*.json):
//   fmt-percent-literal       formats containing "%%"                                   (B1, C15)
//   fmt-precision-sticks      "%.Ns" followed by another %s in the same format          (B2, C15)
//   text-longer-than-511      formatted text of 511 characters or more                  (B3, C15 + C11)
//   string-after-overflow     a %s after a %s that already filled the line              (B4, C15 + C11)
//   line-length-above-512     QB_LOG_CONF_MAX_LINE_LEN above QB_LOG_MAX_LEN             (B5, C15 + C11)
//   line-length-below-notice  QB_LOG_CONF_MAX_LINE_LEN below the "too long" notice (78) (B6, C15 + C11)
//   truncated-inside-header   files cut inside the ring header words                    (B7, C15)
//   read-fault                short / failing reads while printing                      (B7, C15)
//   pointer-beyond-words      read_pt / write_pt at or beyond word_size                 (B8, C15)
//   damage-chunk-words        chunk length / magic words changed                        (B9, C15)
//   damage-format-bytes       conversions planted in the stored format string           (B9, C15)
//   damage-flips              random byte flips, bytes appended after a truncation      (B9, C15)
//   record-at-buffer-limit    a chunk as long as the printer's read buffer              (B10, C15)
//   damage-record-fields, damage-header    (no finding attached; available for triage)
#define SIMK_NO_RENAME 1
#include "../simk/simk_rename.h"
#include "../simk/simk.h"
#include "../simk/sched.h"
#include "../simk/shim.h"
#include <stdarg.h>
#include <limits.h>
#include <string>
#include <vector>
#include <algorithm>

extern "C" {
#include <qb/qbdefs.h>
#include <qb/qblog.h>
}

using namespace simk;

enum { K_LOG, K_DUMP, K_DAMAGE, K_GARBAGE, K_PRINT, K_N };
static const char *const op_names[K_N] = { "log", "dump", "damage", "garbage", "print" };
// K_LOG     a0 format id, a1 argument seed, a2 priority, a3 tags, a4 function-name length, a5 ns of virtual time before the call
// K_DUMP    (no arguments) qb_log_blackbox_write_to_file(scratch/dump)
// K_DAMAGE  a0 damage kind (D_*), a1..a4 parameters (see apply_damage)
// K_GARBAGE a0 length, a1 seed, a2 style: the file is replaced by bytes that never were a dump
// K_PRINT   (no arguments) qb_log_blackbox_print_from_file(scratch/dump)

enum { D_TRUNC, D_TRUNC_WRITES, D_HDR, D_BBHDR, D_CHUNK, D_REC, D_FMT, D_FLIPS, D_APPEND, D_LIMIT, D_N };
static const char *const damage_names[D_N] = { "truncate", "truncate_after_kth_write", "ring_header_field", "blackbox_marker_block",
					       "chunk_header_word", "record_field", "format_string_bytes", "random_byte_flips", "append_bytes",
					       "record_at_read_buffer_limit" };

// hazard groups of *legal* stimuli (a token in SIMK_AVOID switches the group off in the generator)
enum { HZ_NONE = 0, HZ_PCT, HZ_PREC, HZ_WIDE, HZ_SSS, HZ_GEN, HZ_N };

static int which;        // 11 or 15: which property's oracle classes may raise violations
#define VIOL(prop, cls, site, ...) do { if (which == (prop) || (prop) == 0) fail(cls, site, __VA_ARGS__); } while (0)

#define BB_HDR 20        // struct _blackbox_file_header
#define RB_HDR 20        // word_size, write_pt, read_pt, version, hash
#define DATA_OFF (BB_HDR + RB_HDR)
#define RB_VERSION 1
#define CHUNK_MAGIC 0xA1A1A1A1u
#define LINENO_MIN 5000  // the harness logs with line numbers above this; libqb's own source lines are all below
#define NOTICE "Log message too long to be stored in the blackbox.  Maximum is QB_LOG_MAX_LEN"

static int p_wrapped, p_overlong, p_overlong_notice, p_dump_ok, p_dump_failed, p_dump_damaged_by_fault, p_second_dump, p_empty_dump,
	p_print_pristine, p_print_damaged_ok, p_print_damaged_err, p_print_garbage, p_rehash, p_shmcheck, p_records_checked,
	p_internal_records, p_read_fault_print, p_nofile_print, p_damage[D_N], p_fw_short, p_fw_err, p_fw_lost, p_fr_short, p_fr_err,
	p_deep_print, p_mll_set, p_newline_stripped, p_window;

static void init(const char *prop)
{
	which = atoi(prop + 1);
	// probes of the fault program mean nothing in the fault-free C11 part: there they are filed as plain statistics
	const char *RB = which == 11 ? "stat" : "probe";
	p_wrapped = counter_id("probe", "dump_of_wrapped_ring_records_overwritten");
	p_overlong = counter_id("probe", "overlong_message_logged");
	p_overlong_notice = counter_id("probe", "overlong_message_replaced_by_notice");
	p_dump_ok = counter_id("probe", "dump_written_completely");
	p_dump_failed = counter_id(RB, "dump_returned_error_under_fault");
	p_dump_damaged_by_fault = counter_id(RB, "dump_reported_success_but_fault_damaged_file");
	p_second_dump = counter_id("probe", "second_dump_after_more_logging");
	p_empty_dump = counter_id("probe", "dump_of_empty_blackbox");
	p_print_pristine = counter_id("probe", "print_of_pristine_dump_checked");
	p_print_damaged_ok = counter_id(RB, "print_of_damaged_file_returned_success");
	p_print_damaged_err = counter_id(RB, "print_of_damaged_file_returned_error");
	p_print_garbage = counter_id(RB, "print_of_never_a_dump_file");
	p_rehash = counter_id(RB, "header_hash_recomputed");
	p_shmcheck = counter_id("probe", "shm_leftover_check_done");
	p_records_checked = counter_id("probe", "records_compared_field_by_field");
	p_internal_records = counter_id("probe", "libqb_internal_records_in_dump");
	p_read_fault_print = counter_id(RB, "print_with_read_fault_fired");
	p_nofile_print = counter_id(RB, "print_of_missing_file");
	p_deep_print = counter_id(RB, "damaged_file_reached_record_decoding");
	p_mll_set = counter_id("probe", "max_line_length_configured");
	p_newline_stripped = counter_id("probe", "trailing_newline_record");
	p_window = counter_id("probe", "printer_ring_placed_between_guard_regions");
	for (int k = 0; k < D_N; k++) { std::string n = std::string("damage_") + damage_names[k]; p_damage[k] = counter_id(RB, n.c_str()); }
	p_fw_short = counter_id(RB, "dump_write_short_fired");
	p_fw_err = counter_id(RB, "dump_write_error_fired");
	p_fw_lost = counter_id(RB, "dump_write_lost_fired");
	p_fr_short = counter_id(RB, "print_read_short_fired");
	p_fr_err = counter_id(RB, "print_read_error_fired");
	counter_id("fault", "write_short"); counter_id("fault", "write_err"); counter_id("fault", "write_lost");
	counter_id("fault", "read_short"); counter_id("fault", "read_err");
}

// ------------------------------------------------------------------ formats (legal stimuli)
enum Shape { SH_NONE, SH_U, SH_UD, SH_UDD, SH_US, SH_USD, SH_ULS, SH_UF, SH_UQD, SH_UC, SH_USSS, SH_UZ, SH_UP, SH_UDS, SH_USS, SH_FILL, SH_GEN, SH_ULD };
struct Fmt { const char *fmt; int shape; int hazard; };
static const Fmt FMTS[] = {
	/* 0 */ { "#%u", SH_U, HZ_NONE },
	/* 1 */ { "#%u plain message with no further arguments", SH_U, HZ_NONE },
	/* 2 */ { "#%u value=%d", SH_UD, HZ_NONE },
	/* 3 */ { "#%u [%5d] <%-6d>", SH_UDD, HZ_NONE },
	/* 4 */ { "#%u str=%s", SH_US, HZ_NONE },
	/* 5 */ { "#%u %s (rc=%d)", SH_USD, HZ_NONE },
	/* 6 */ { "#%u took %ld ticks in %s", SH_ULS, HZ_NONE },
	/* 7 */ { "#%u load %f", SH_UF, HZ_NONE },
	/* 8 */ { "#%u id=%llx n=%d", SH_UQD, HZ_NONE },
	/* 9 */ { "#%u char '%c'", SH_UC, HZ_NONE },
	/* 10 */ { "#%u %s/%s/%s", SH_USSS, HZ_NONE },
	/* 11 */ { "#%u size=%zu", SH_UZ, HZ_NONE },
	/* 12 */ { "#%u ptr=%p", SH_UP, HZ_NONE },
	/* 13 */ { "#%u pad %*d|", SH_UDD, HZ_NONE },
	/* 14 */ { "#%u trunc %.*s|", SH_UDS, HZ_NONE },
	/* 15 */ { "#%u trailing newline %d\n", SH_UD, HZ_NONE },
	/* 16 */ { "#%u %s", SH_US, HZ_NONE },
	/* 17 */ { "message without a serial", SH_NONE, HZ_NONE },
	/* 18 */ { "#%u %.3f", SH_UF, HZ_NONE },
	/* 19 */ { "#%u hex %#x oct %o", SH_UDD, HZ_NONE },
	/* 20 */ { "#%u %-10s|%10s|", SH_USS, HZ_NONE },
	/* 21 */ { "#%u main part\aextended part %d", SH_UD, HZ_NONE },
	/* 22 */ { "#%u ", SH_FILL, HZ_NONE },                 // "#%u " followed by a literal filler of seeded length
	/* 23 */ { "#%u 100%% done", SH_U, HZ_PCT },
	/* 24 */ { "#%u rate %d%%, host %s", SH_UDS, HZ_PCT },
	/* 25 */ { "#%u 50%%", SH_U, HZ_PCT },
	/* 26 */ { "#%u %.4s|%s", SH_USS, HZ_PREC },
	/* 27 */ { "#%u %300d %300d", SH_UDD, HZ_WIDE },
	/* 28 */ { "#%u %0500d", SH_UD, HZ_WIDE },
	/* 29 */ { "#%u %s|%s|%s", SH_USSS, HZ_SSS },          // three strings, the first longer than the line length
	/* 30 */ { "#%u ", SH_GEN, HZ_GEN },                   // "#%u " followed by a seeded sequence of conversions (make_gen)
	/* 31 */ { "#%u ld %Lf then %d and %s", SH_ULD, HZ_GEN },
	/* 32 */ { "#%u short %hd then str %s", SH_UDS, HZ_GEN },
	/* 33 */ { "#%u uchar %hhu then int %d", SH_UDD, HZ_GEN },
	/* 34 */ { ".", SH_NONE, HZ_GEN },                     // the shortest messages there are
	/* 35 */ { "ab", SH_NONE, HZ_GEN },
	/* 36 */ { "#%u nothing after the marker %d\a", SH_UD, HZ_GEN },     // QB_XS with an empty extended part
};
#define N_FMTS ((int)(sizeof FMTS / sizeof FMTS[0]))
#define N_BASE_FMTS 23

struct Args {
	unsigned u; int d1, d2; long l; long long q; double f; int c; size_t z; void *p;
	std::string s1, s2, s3, fill;
	// SH_GEN: the generated tail of the format, its integer-class arguments (one 8-byte slot each, in order), its
	// floating-point arguments (in order), the strings some of the slots point to, and the serialized size of it all
	std::string genfmt; uint64_t G[8]; double D[8]; std::string gs[8]; bool gstr[8]; size_t genser;
};

static std::string make_str(Rng &r, size_t len)
{
	static const char alpha[] = "abcdefghijklmnopqrstuvwxyzABCDEFGHIJKLMNOPQRSTUVWXYZ0123456789_-./:;,=+*()[]{}<>!?@#$^&~|'\" %";
	std::string s;
	s.reserve(len);
	for (size_t n = 0; n < len; n++) s.push_back(alpha[r.below(sizeof alpha - 1)]);
	return s;
}
static size_t str_len(Rng &r, uint32_t mll, bool allow_long)
{
	uint32_t k = (uint32_t)r.below(100);
	if (k < 55) return (size_t)r.below(21);
	if (k < 80) return (size_t)r.below(120);
	if (!allow_long || k < 88) return (size_t)r.below(300);
	if (k < 94) { int64_t v = (int64_t)mll - r.range(0, 40); return v < 0 ? 0 : (size_t)v; }    // around the line length
	return (size_t)r.range(mll, (int64_t)mll + 300);                                              // over-long
}
static int pick_int(Rng &r)
{
	static const int sp[] = { 0, 1, -1, 7, 42, -100, 65535, INT_MAX, INT_MIN, 1000000 };
	return r.chance(1, 2) ? sp[r.below(10)] : (int)(int32_t)r.u64();
}


// A seeded format: 1..6 conversions from the vocabulary the serializer documents support for (flags, width, precision,
// length modifiers h hh l ll z t j, d i o u x X c s p e f g a, "%%", "*"), with literal text in between.
// The call passes every integer-class argument as one 8-byte slot and every double separately (do_log); on x86-64 SysV
// va_arg walks the two sequences independently, so one call signature serves every generated format.
#if !defined(__x86_64__)
#error "the generated-format shape relies on the x86-64 SysV variadic calling convention"
#endif
struct Conv { const char *spec; char cls; int stars; };
static const Conv CONVS[] = {
	{ "%d", 'i', 0 }, { "%i", 'i', 0 }, { "%u", 'i', 0 }, { "%x", 'i', 0 }, { "%X", 'i', 0 }, { "%o", 'i', 0 }, { "%5d", 'i', 0 }, { "%-6d|", 'i', 0 },
	{ "%05d", 'i', 0 }, { "%+d", 'i', 0 }, { "% d", 'i', 0 }, { "%#x", 'i', 0 }, { "%.3d", 'i', 0 }, { "%-+8.3d|", 'i', 0 }, { "% 5i", 'i', 0 }, { "%'d", 'i', 0 },
	{ "%hd", 'i', 0 }, { "%hu", 'i', 0 }, { "%hhd", 'i', 0 }, { "%hhu", 'i', 0 }, { "%hx", 'i', 0 }, { "%hhX", 'i', 0 }, { "%hi", 'i', 0 }, { "%#ho", 'i', 0 },
	{ "%c", 'c', 0 }, { "%3c", 'c', 0 }, { "%-3c|", 'c', 0 }, { "%*c", 'c', 1 },
	{ "%ld", 'l', 0 }, { "%lu", 'l', 0 }, { "%lx", 'l', 0 }, { "%li", 'l', 0 }, { "%12ld", 'l', 0 }, { "%lo", 'l', 0 }, { "%lX", 'l', 0 }, { "%-*ld|", 'l', 1 },
	{ "%lld", 'l', 0 }, { "%llu", 'l', 0 }, { "%llx", 'l', 0 }, { "%#llo", 'l', 0 }, { "%lli", 'l', 0 }, { "%llX", 'l', 0 }, { "%+lld", 'l', 0 },
	{ "%zu", 'l', 0 }, { "%zd", 'l', 0 }, { "%zx", 'l', 0 }, { "%zi", 'l', 0 }, { "%td", 'l', 0 }, { "%jd", 'l', 0 }, { "%ju", 'l', 0 }, { "%jx", 'l', 0 },
	{ "%f", 'f', 0 }, { "%e", 'f', 0 }, { "%g", 'f', 0 }, { "%.2f", 'f', 0 }, { "%10.3e", 'f', 0 }, { "%G", 'f', 0 }, { "%a", 'f', 0 }, { "%F", 'f', 0 }, { "%E", 'f', 0 },
	{ "%08.3f", 'f', 0 }, { "%+.2e", 'f', 0 }, { "%.*f", 'f', 1 }, { "%*.*f", 'f', 2 }, { "%.0f", 'f', 0 }, { "%#g", 'f', 0 },
	{ "%s", 's', 0 }, { "%10s", 's', 0 }, { "%-10s|", 's', 0 }, { "%.3s", '3', 0 }, { "%.*s", 's', 1 }, { "%*s", 's', 1 }, { "%-*s|", 's', 1 },
	{ "%*d", 'i', 1 }, { "%-*d|", 'i', 1 }, { "%.*d", 'i', 1 }, { "%0*d", 'i', 1 },
	{ "%p", 'l', 0 }, { "%%", '%', 0 },
};
#define N_CONVS ((int)(sizeof CONVS / sizeof CONVS[0]))
static void make_gen(Rng &r, Args &a)
{
	static const char lit[] = "abcxyzABC019 _-.:;,=+()[]<>!?@#$^&~'";
	a.genfmt.clear(); a.genser = 0;
	for (int k = 0; k < 8; k++) { a.G[k] = 0; a.D[k] = 0.0; a.gs[k].clear(); a.gstr[k] = false; }
	int ng = 0, nd = 0, n = (int)r.range(1, 6);
	for (int k = 0; k < n; k++) {
		for (int j = (int)r.below(4); j > 0; j--) a.genfmt.push_back(lit[r.below(sizeof lit - 1)]);
		const Conv &c = CONVS[r.below((uint64_t)N_CONVS)];
		int need_g = c.stars + (c.cls == 'f' || c.cls == '%' ? 0 : 1);
		if (ng + need_g > 6 || (c.cls == 'f' && nd >= 6)) continue;
		a.genfmt += c.spec;
		// "*": an int argument for the width (may be negative: left-adjust) or the precision, stored as an int
		for (const char *q = c.spec; *q; q++)
			if (*q == '*') { bool prec = q > c.spec && q[-1] == '.'; a.G[ng++] = (uint64_t)(int64_t)(prec ? r.range(0, 8) : r.range(-12, 12)); a.genser += 4; }
		switch (c.cls) {
		case 'i': a.G[ng++] = (uint64_t)(int64_t)pick_int(r); a.genser += 4; break;
		case 'c': a.G[ng++] = (uint64_t)"aZ09 .#"[r.below(7)]; a.genser += 1; break;
		case 'l': a.G[ng++] = r.chance(1, 2) ? (uint64_t)(int64_t)pick_int(r) : r.u64(); a.genser += 8; break;
		case 'f': { static const double ds[] = { 0.0, 1.0, -1.5, 3.14159265, 1e-7, 123456.789, -99999.5, 0.1, 1e15, -2.5e-300 }; a.D[nd++] = ds[r.below(10)]; a.genser += 8; break; }
		case 's': case '3': {
			a.gs[ng] = make_str(r, (size_t)r.below(21)); a.gstr[ng] = true;
			a.genser += (c.cls == '3' ? std::min<size_t>(3, a.gs[ng].size()) : a.gs[ng].size()) + 1;
			ng++;
			break; }
		default: break;
		}
	}
	for (int k = 0; k < 8; k++) if (a.gstr[k]) a.G[k] = (uint64_t)(uintptr_t)a.gs[k].c_str();
}

static void make_args(int fid, uint64_t aseed, uint32_t serial, uint32_t mll, Args &a)
{
	Rng r(mix64(aseed ^ 0x5eed));
	const Fmt &f = FMTS[fid];
	a.u = serial;
	a.d1 = pick_int(r); a.d2 = pick_int(r);
	a.l = r.chance(1, 2) ? (long)pick_int(r) : (long)(int64_t)r.u64();
	a.q = (long long)r.u64();
	static const double ds[] = { 0.0, 1.0, -1.5, 3.14159265, 1e-7, 123456.789, -99999.5, 0.1 };
	a.f = ds[r.below(8)];
	a.c = "aZ09 .#"[r.below(7)];
	a.z = (size_t)r.u64() >> (r.below(56));
	a.p = (void *)(uintptr_t)(0x1000 + (r.u64() & 0xffffffffffffULL));
	bool allow_long = r.chance(1, 3);
	// an over-long string is only generated for the last %s of a format: a %s that follows an overflowing one is the
	// separate hazard group HZ_SSS (format 29)
	bool three = f.shape == SH_USSS, two = f.shape == SH_USS;
	a.s1 = make_str(r, str_len(r, mll, allow_long && !three && !two));
	a.s2 = make_str(r, str_len(r, mll, allow_long && two));
	a.s3 = make_str(r, str_len(r, mll, allow_long && three));
	if ((three || two) && f.hazard != HZ_SSS && f.hazard != HZ_PREC) {
		// everything up to and including the last-but-one string must fit the line length with room to spare
		size_t fixed = strlen(f.fmt) + 1 + 4 + 24;
		size_t budget = mll > fixed ? mll - fixed : 0;
		for (int guard = 0; guard < 20; guard++) {
			size_t lead = a.s1.size() + 1 + (three ? a.s2.size() + 1 : 0);
			if (lead < budget || lead <= (three ? 2u : 1u)) break;
			a.s1.resize(a.s1.size() / 2);
			if (three) a.s2.resize(a.s2.size() / 2);
		}
	}
	if (f.shape == SH_UDD && fid == 13) a.d1 = (int)r.range(-24, 24);          // %*d width
	if (f.shape == SH_UDS && fid == 14) a.d1 = (int)r.range(0, 40);            // %.*s precision
	if (f.hazard == HZ_SSS) {
		a.s1 = make_str(r, (size_t)mll + (size_t)r.below(40));
		a.s2 = make_str(r, (size_t)r.range(0, 200));
		a.s3 = make_str(r, (size_t)r.range(20, 400));
	}
	if (f.shape == SH_GEN) make_gen(r, a);
	if (f.shape == SH_ULD) a.s1.resize(std::min<size_t>(a.s1.size(), 40));
	if (f.shape == SH_FILL) {
		uint32_t k = (uint32_t)r.below(100);
		size_t n = k < 60 ? (size_t)r.below(100) : k < 85 ? (size_t)r.below(480) : (size_t)r.range((int64_t)mll - 30, (int64_t)mll + 200);
		if ((int64_t)n < 0) n = 0;
		a.fill = make_str(r, n);
		for (size_t i = 0; i < a.fill.size(); i++) if (a.fill[i] == '%') a.fill[i] = '_';     // the filler is format text
	}
}

// size of the serialized form (format text + NUL + arguments) as log_format.c lays it out for these formats
static size_t ser_size(const std::string &fmt, int shape, const Args &a)
{
	size_t n = fmt.size() + 1;
	switch (shape) {
	case SH_NONE: break;
	case SH_U: case SH_FILL: n += 4; break;
	case SH_UD: n += 8; break;
	case SH_UDD: n += 12; break;
	case SH_US: n += 4 + a.s1.size() + 1; break;
	case SH_USD: n += 4 + a.s1.size() + 1 + 4; break;
	case SH_ULS: n += 4 + 8 + a.s1.size() + 1; break;
	case SH_UF: n += 4 + 8; break;
	case SH_UQD: n += 4 + 8 + 4; break;
	case SH_UC: n += 4 + 1; break;
	case SH_USSS: n += 4 + a.s1.size() + a.s2.size() + a.s3.size() + 3; break;
	case SH_UZ: n += 4 + 8; break;
	case SH_UP: n += 4 + 8; break;
	case SH_UDS: n += 4 + 4 + a.s1.size() + 1; break;
	case SH_USS: n += 4 + a.s1.size() + a.s2.size() + 2; break;
	case SH_GEN: n += 4 + a.genser; break;
	case SH_ULD: n += 4 + 16 + 4 + a.s1.size() + 1; break;
	}
	return n;
}

#pragma clang diagnostic push
#pragma clang diagnostic ignored "-Wformat-nonliteral"
#pragma clang diagnostic ignored "-Wformat-security"
static std::string expect_text(const char *fmt, int shape, const Args &a)
{
	std::vector<char> b(16384);
	int n = 0;
	switch (shape) {
	case SH_NONE: n = snprintf(b.data(), b.size(), fmt); break;
	case SH_U: case SH_FILL: n = snprintf(b.data(), b.size(), fmt, a.u); break;
	case SH_UD: n = snprintf(b.data(), b.size(), fmt, a.u, a.d1); break;
	case SH_UDD: n = snprintf(b.data(), b.size(), fmt, a.u, a.d1, a.d2); break;
	case SH_US: n = snprintf(b.data(), b.size(), fmt, a.u, a.s1.c_str()); break;
	case SH_USD: n = snprintf(b.data(), b.size(), fmt, a.u, a.s1.c_str(), a.d1); break;
	case SH_ULS: n = snprintf(b.data(), b.size(), fmt, a.u, a.l, a.s1.c_str()); break;
	case SH_UF: n = snprintf(b.data(), b.size(), fmt, a.u, a.f); break;
	case SH_UQD: n = snprintf(b.data(), b.size(), fmt, a.u, a.q, a.d1); break;
	case SH_UC: n = snprintf(b.data(), b.size(), fmt, a.u, a.c); break;
	case SH_USSS: n = snprintf(b.data(), b.size(), fmt, a.u, a.s1.c_str(), a.s2.c_str(), a.s3.c_str()); break;
	case SH_UZ: n = snprintf(b.data(), b.size(), fmt, a.u, a.z); break;
	case SH_UP: n = snprintf(b.data(), b.size(), fmt, a.u, a.p); break;
	case SH_UDS: n = snprintf(b.data(), b.size(), fmt, a.u, a.d1, a.s1.c_str()); break;
	case SH_USS: n = snprintf(b.data(), b.size(), fmt, a.u, a.s1.c_str(), a.s2.c_str()); break;
	case SH_GEN: n = snprintf(b.data(), b.size(), fmt, (uint64_t)a.u, a.G[0], a.G[1], a.G[2], a.G[3], a.G[4], a.G[5], a.D[0], a.D[1], a.D[2], a.D[3], a.D[4], a.D[5]); break;
	case SH_ULD: n = snprintf(b.data(), b.size(), fmt, a.u, (long double)a.f, a.d1, a.s1.c_str()); break;
	}
	if (n < 0) n = 0;
	if ((size_t)n >= b.size()) n = (int)b.size() - 1;
	return std::string(b.data(), (size_t)n);
}

static void do_log(const char *fn, const char *file, const char *fmt, uint8_t prio, uint32_t line, uint32_t tags, int shape, const Args &a)
{
	switch (shape) {
	case SH_NONE: qb_log_from_external_source(fn, file, fmt, prio, line, tags); break;
	case SH_U: case SH_FILL: qb_log_from_external_source(fn, file, fmt, prio, line, tags, a.u); break;
	case SH_UD: qb_log_from_external_source(fn, file, fmt, prio, line, tags, a.u, a.d1); break;
	case SH_UDD: qb_log_from_external_source(fn, file, fmt, prio, line, tags, a.u, a.d1, a.d2); break;
	case SH_US: qb_log_from_external_source(fn, file, fmt, prio, line, tags, a.u, a.s1.c_str()); break;
	case SH_USD: qb_log_from_external_source(fn, file, fmt, prio, line, tags, a.u, a.s1.c_str(), a.d1); break;
	case SH_ULS: qb_log_from_external_source(fn, file, fmt, prio, line, tags, a.u, a.l, a.s1.c_str()); break;
	case SH_UF: qb_log_from_external_source(fn, file, fmt, prio, line, tags, a.u, a.f); break;
	case SH_UQD: qb_log_from_external_source(fn, file, fmt, prio, line, tags, a.u, a.q, a.d1); break;
	case SH_UC: qb_log_from_external_source(fn, file, fmt, prio, line, tags, a.u, a.c); break;
	case SH_USSS: qb_log_from_external_source(fn, file, fmt, prio, line, tags, a.u, a.s1.c_str(), a.s2.c_str(), a.s3.c_str()); break;
	case SH_UZ: qb_log_from_external_source(fn, file, fmt, prio, line, tags, a.u, a.z); break;
	case SH_UP: qb_log_from_external_source(fn, file, fmt, prio, line, tags, a.u, a.p); break;
	case SH_UDS: qb_log_from_external_source(fn, file, fmt, prio, line, tags, a.u, a.d1, a.s1.c_str()); break;
	case SH_USS: qb_log_from_external_source(fn, file, fmt, prio, line, tags, a.u, a.s1.c_str(), a.s2.c_str()); break;
	case SH_GEN: qb_log_from_external_source(fn, file, fmt, prio, line, tags, (uint64_t)a.u, a.G[0], a.G[1], a.G[2], a.G[3], a.G[4], a.G[5], a.D[0], a.D[1], a.D[2], a.D[3], a.D[4], a.D[5]); break;
	case SH_ULD: qb_log_from_external_source(fn, file, fmt, prio, line, tags, a.u, (long double)a.f, a.d1, a.s1.c_str()); break;
	}
}
#pragma clang diagnostic pop

// ------------------------------------------------------------------ generator
static bool avoid(const char *tok)
{
	const char *e = getenv("SIMK_AVOID");
	if (!e) return false;
	size_t n = strlen(tok);
	for (const char *p = e; (p = strstr(p, tok)); p += n)
		if ((p == e || p[-1] == ',') && (p[n] == 0 || p[n] == ',')) return true;
	return false;
}

static void gen_logs(Rng &r, Plan &p, int n, const bool hz[HZ_N])
{
	for (int k = 0; k < n; k++) {
		int fid;
		uint32_t c = (uint32_t)r.below(100);
		if (c < 70 || (c < 82 && !hz[HZ_GEN])) fid = (int)r.below(N_BASE_FMTS);
		else if (c < 82) fid = r.chance(1, 5) ? 31 + (int)r.below(6) : 30;
		else {
			fid = N_BASE_FMTS + (int)r.below((uint64_t)(N_FMTS - N_BASE_FMTS));
			if (!hz[FMTS[fid].hazard]) fid = (int)r.below(N_BASE_FMTS);
		}
		int64_t prio = r.chance(9, 10) ? (int64_t)r.below(8) : 8;            // syslog priorities 0..7 and LOG_TRACE
		uint32_t tk = (uint32_t)r.below(10);
		int64_t tags = tk < 4 ? 0 : tk < 8 ? (int64_t)r.below(64) : (int64_t)(r.u64() & 0x7fffffff);
		uint32_t fk = (uint32_t)r.below(100);
		int64_t fnlen = fk < 50 ? r.range(1, 24) : fk < 90 ? r.range(1, 80) : r.range(80, 200);
		uint32_t dk = (uint32_t)r.below(100);
		int64_t dt = dk < 20 ? 0 : dk < 50 ? (int64_t)r.below(1000000) : dk < 85 ? (int64_t)r.below(2000000000) : (int64_t)r.below(200000) * 1000000000LL;
		p.add(0, K_LOG, fid, (int64_t)(r.u64() >> 16), prio, tags, fnlen, dt);
	}
}

static void gen_damage(Rng &r, Plan &p, const bool dz[D_N], bool no_ptr_range, bool no_fmt_deep)
{
	for (int tries = 0; tries < 20; tries++) {
		int kind;
		static const int w[D_N] = { 14, 6, 20, 5, 12, 16, 12, 8, 3, 4 };
		uint32_t t = (uint32_t)r.below(100), acc = 0;
		for (kind = 0; kind < D_N - 1; kind++) { acc += (uint32_t)w[kind]; if (t < acc) break; }
		if (!dz[kind]) continue;
		switch (kind) {
		case D_TRUNC: {
			uint32_t k = (uint32_t)r.below(100);
			// every length in the header region, then random lengths beyond (a1 < 0: that many bytes off the end)
			int64_t len = k < 55 ? (int64_t)r.below(DATA_OFF + 1) : k < 70 ? (int64_t)r.range(DATA_OFF, DATA_OFF + 64) : k < 85 ? -(int64_t)r.range(1, 64) : (int64_t)r.below(70000);
			p.add(0, K_DAMAGE, D_TRUNC, len);
			break; }
		case D_TRUNC_WRITES:
			p.add(0, K_DAMAGE, D_TRUNC_WRITES, (int64_t)r.below(7));
			break;
		case D_HDR: {
			int64_t field = (int64_t)r.below(5);
			int64_t mode = (int64_t)r.below(22);
			if (no_ptr_range && (field == 1 || field == 2)) { static const int safe[] = { 0, 1, 6, 14, 15 }; mode = safe[r.below(5)]; }
			int64_t rehash = field == 4 ? 0 : r.chance(5, 6);
			p.add(0, K_DAMAGE, D_HDR, field, mode, rehash, (int64_t)(r.u64() & 0xffffffff));
			break; }
		case D_BBHDR:
			p.add(0, K_DAMAGE, D_BBHDR, (int64_t)r.below(BB_HDR), (int64_t)r.range(1, 255));
			break;
		case D_CHUNK:
			p.add(0, K_DAMAGE, D_CHUNK, (int64_t)r.below(8), (int64_t)r.below(2), (int64_t)r.below(16), (int64_t)(r.u64() & 0xffffffff));
			break;
		case D_REC:
		{
			// the length fields and their bounds get most of the attention
			uint32_t fk = (uint32_t)r.below(100);
			static const int other[] = { 0, 1, 2, 5, 6 };
			int64_t field = fk < 40 ? 3 : fk < 60 ? 7 : fk < 70 ? 4 : other[r.below(5)];
			static const int edge[] = { 4, 5, 6, 9, 2, 3 };
			int64_t mode = r.chance(1, 2) ? edge[r.below(6)] : (int64_t)r.below(12);
			p.add(0, K_DAMAGE, D_REC, (int64_t)r.below(8), field, mode, (int64_t)(r.u64() & 0xffffffff));
		}
			break;
		case D_FMT:
			p.add(0, K_DAMAGE, D_FMT, (int64_t)r.below(8), no_fmt_deep ? (int64_t)r.below(3) : (int64_t)r.below(12), (int64_t)(r.u64() >> 20));
			break;
		case D_FLIPS: {
			int64_t cnt = r.chance(1, 2) ? 1 : r.range(2, 32);
			p.add(0, K_DAMAGE, D_FLIPS, cnt, (int64_t)(r.u64() >> 20), (int64_t)r.below(3));
			break; }
		case D_APPEND:
			p.add(0, K_DAMAGE, D_APPEND, r.range(1, 5000), (int64_t)(r.u64() >> 20));
			break;
		case D_LIMIT:
			p.add(0, K_DAMAGE, D_LIMIT, (int64_t)r.below(8), (int64_t)r.below(16), (int64_t)r.below(6));
			break;
		}
		return;
	}
}

static void gen(const char *prop, RunSpec &spec)
{
	Rng r = stream(spec.seed, "data");
	Plan &p = spec.plan;
	bool c11 = atoi(prop + 1) == 11;
	// known findings switch off the stimulus group that triggers them (tokens documented in props.py / known_findings.txt)
	bool hz[HZ_N];
	hz[HZ_NONE] = true;
	hz[HZ_PCT] = !avoid("fmt-percent-literal") && r.chance(1, 3);
	hz[HZ_PREC] = !avoid("fmt-precision-sticks") && r.chance(1, 3);
	hz[HZ_WIDE] = !avoid("text-longer-than-511") && r.chance(1, 4);
	hz[HZ_SSS] = !avoid("string-after-overflow") && r.chance(1, 4);
	hz[HZ_GEN] = !avoid("fmt-generated") && r.chance(1, 2);
	bool dz[D_N];
	for (int k = 0; k < D_N; k++) dz[k] = true;
	if (avoid("damage-format-bytes")) dz[D_FMT] = false;
	if (avoid("damage-record-fields")) dz[D_REC] = false;
	if (avoid("damage-chunk-words")) dz[D_CHUNK] = false;
	if (avoid("damage-flips")) dz[D_FLIPS] = dz[D_APPEND] = false;     // (bytes appended after a truncation are flipped bytes)
	if (avoid("damage-header")) dz[D_HDR] = false;
	if (avoid("record-at-buffer-limit")) dz[D_LIMIT] = false;
	bool no_trunc_hdr = avoid("truncated-inside-header");
	bool no_ptr_range = avoid("pointer-beyond-words");
	bool no_read_fault = avoid("read-fault");
	bool no_fmt_deep = false;
	bool no_big_mll = avoid("line-length-above-512");
	bool no_small_mll = avoid("line-length-below-notice");

	int mode = c11 ? 0 : (r.chance(40, 100) ? 0 : 1);
	p.set("mode", mode);
	uint32_t sk = (uint32_t)r.below(100);
	int64_t S = sk < 45 ? r.range(1024, 4083) : sk < 70 ? r.range(1, 6) * 4096 - 13 - r.range(0, 3) + r.range(0, 3) : sk < 90 ? r.range(1024, 20000) : r.range(20000, 70000);
	if (S < 1024) S = 1024;
	p.set("size", S);
	uint32_t mk = (uint32_t)r.below(100);
	int64_t mll = 0;                         // 0: leave the default (QB_LOG_MAX_LEN = 512)
	if (mk >= 60 && mk < 78) mll = r.range(80, 511);
	else if (mk >= 78 && mk < 84) mll = r.chance(1, 2) ? 512 : 511;
	else if (mk >= 84 && mk < 92 && !no_big_mll) mll = r.chance(1, 3) ? 4096 : r.range(513, 4096);
	else if (mk >= 92 && !no_small_mll) mll = r.range(16, 79);
	p.set("mll", mll);
	// a blackbox smaller than a couple of maximal records (33 + function name + line length each) is a misconfiguration, not a stimulus
	if (mll > 512 && S < 3 * mll + 1024) { S = 3 * mll + 1024 + r.range(0, 4096); p.set("size", S); }
	// (qb_log_fini walks the call-site table, which is indexed by line number, taking a lock per entry: high bases cost time)
	p.set("lineno_base", r.chance(1, 12) ? r.range(LINENO_MIN, 60000) : r.range(LINENO_MIN, 9000));
	p.set("real_base_s", r.chance(1, 8) ? r.range(0, 4000000000LL) : r.range(1500000000, 1900000000));
	p.set("real_base_ns", r.chance(1, 3) ? 0 : r.range(0, 999999999));
	p.set("stack_fill", (int64_t)r.below(4));
	p.set("text_cap", hz[HZ_WIDE] ? 0 : 500);
	spec.explicit_faults = true;             // faults are (task, kind, n-th call) records chosen here, none fire otherwise

	if (mode == 0) {
		int n = r.chance(1, 2) ? (int)r.range(1, 14) : (int)r.range(14, 260);
		int first = (int)r.range(0, n);
		gen_logs(r, p, first, hz);
		p.add(0, K_DUMP);
		p.add(0, K_PRINT);
		if (r.chance(1, 2)) {
			int more = (int)r.range(0, n - first > 0 ? n - first : 1);
			gen_logs(r, p, more, hz);
			if (r.chance(2, 3)) { p.add(0, K_DUMP); p.add(0, K_PRINT); }
		}
		return;
	}
	// robustness: rounds of (log, dump under write faults, at-rest damage, print under read faults) or (garbage, print)
	int rounds = (int)r.range(1, 3);
	if (r.chance(1, 30)) p.add(0, K_PRINT);  // a file that does not exist
	uint64_t wbase = 0, rbase = 0;           // per-task call indices of the first write of the next dump / first read of the next print
	for (int rd = 0; rd < rounds; rd++) {
		if (r.chance(1, 5)) {
			uint32_t k = (uint32_t)r.below(100);
			int64_t len = k < 10 ? 0 : k < 55 ? r.range(1, 64) : k < 85 ? r.range(65, 9000) : r.range(9000, 300000);
			p.add(0, K_GARBAGE, len, (int64_t)(r.u64() >> 20), (int64_t)r.below(5));
		} else {
			int n = r.chance(2, 3) ? (int)r.range(0, 20) : (int)r.range(20, 200);
			gen_logs(r, p, n, hz);
			p.add(0, K_DUMP);
			if (r.chance(1, 4)) {
				// storage fault during the dump: its 7 writes are the header block, five header words and the data
				Fault f; f.task = 0; f.idx = wbase + r.below(7);
				uint32_t fk = (uint32_t)r.below(3);
				f.kind = fk == 0 ? F_WRITE_SHORT : fk == 1 ? F_WRITE_ERR : F_WRITE_LOST;
				f.arg = (int64_t)(r.u64() >> 24);
				if (f.kind == F_WRITE_SHORT) f.idx = r.chance(1, 2) ? wbase + 1 : wbase;    // only the n > 1 writes ask: header block and data
				spec.faults.push_back(f);
			}
			wbase += 7;      // (an early failure makes later dumps start earlier: then the fault simply lands elsewhere or nowhere)
			int nd = r.chance(1, 6) ? 0 : (int)r.range(1, 3);
			for (int k = 0; k < nd; k++) gen_damage(r, p, dz, no_ptr_range, no_fmt_deep);
		}
		if (no_trunc_hdr) {
			for (size_t i = 0; i < p.ops.size(); i++) {
				Op &o = p.ops[i];
				if (o.kind == K_DAMAGE && o.a[0] == D_TRUNC && o.a[1] >= 0 && o.a[1] < DATA_OFF) o.a[1] = DATA_OFF + o.a[1];
				if (o.kind == K_DAMAGE && o.a[0] == D_TRUNC_WRITES) { o.a[0] = D_TRUNC; o.a[1] = -(1 + o.a[1]); }
				if (o.kind == K_GARBAGE && o.a[0] < DATA_OFF) o.a[0] += DATA_OFF;
			}
		}
		p.add(0, K_PRINT);
		if (!no_read_fault && r.chance(1, 5)) {
			Fault f; f.task = 0; f.idx = rbase + r.below(7);
			f.kind = r.chance(1, 2) ? F_READ_SHORT : F_READ_ERR;
			f.arg = (int64_t)(r.u64() >> 24);
			if (f.kind == F_READ_SHORT) f.idx = rbase + r.below(7);
			spec.faults.push_back(f);
		}
		rbase += 7;
	}
}

// ------------------------------------------------------------------ run state
struct Rec {
	uint32_t serial, lineno, tags;
	uint8_t prio;
	std::string fn, text, prefix, fmt;
	size_t ser;          // serialized size
	int hazard;          // hazard group of the format it was logged with
	bool overlong;       // the library may replace the text by its notice
};

struct St {
	const RunSpec *spec = NULL;
	int mode = 0;
	uint32_t S = 1024, mll = 512, lineno_base = 0;
	int stack_fill = 0;
	int text_cap = 0;            // 0: no cap on the length of a formatted text
	std::vector<Rec> recs;
	std::string path;
	int file_state = 0;          // 0 no file, 1 pristine dump, 2 damaged / faulty / never a dump
	size_t dump_n = 0;           // records logged before the dump that produced the file
	bool fault_since = false;    // an injected fault fired since the current dump / print started
	bool in_print = false, in_dump = false;
	int ndumps = 0;
	uint64_t checked = 0, damaged_done = 0;
	FILE *cap = NULL, *saved_stdout = NULL;
	char *capbuf = NULL; size_t caplen = 0;
	bool inited = false;
	char name[32];
	int print_mmaps = 0;
	std::vector<std::pair<void *, size_t> > plugs;
};
static St *Gp;
#define G (*Gp)

// The ring the printer re-creates from the file is a plain mmap: an index beyond it would land in whatever the kernel happened
// to map next to it (in practice this process's own live blackbox ring), silently and differently from process to process.
// So the printer's ring is given a place of its own: immediately before libqb reserves the address range (its second mmap
// inside qb_rb_open) every free gap that could take the range is plugged and a window of exactly that size is opened inside
// a large PROT_NONE reservation. The kernel then has one place left to put it, and any access outside the ring's double
// mapping (up to several ring sizes away) faults at once, in every process alike.
static void place_ring_window()
{
	char path[96];
	struct stat sb;
	snprintf(path, sizeof path, "/dev/shm/qb-create_from_file%d-data", (int)getpid());
	if (stat(path, &sb) != 0 || sb.st_size <= 0 || sb.st_size > (64 << 20)) return;
	size_t W = 2 * (size_t)sb.st_size, lo = 1 << 20, hi = 6 * (size_t)sb.st_size + (1 << 20);
	char *res = (char *)mmap(NULL, lo + W + hi, PROT_NONE, MAP_PRIVATE | MAP_ANONYMOUS | MAP_NORESERVE, -1, 0);
	if (res == MAP_FAILED) return;
	for (int n = 0; n < 2048; n++) {
		char *q = (char *)mmap(NULL, W, PROT_NONE, MAP_PRIVATE | MAP_ANONYMOUS | MAP_NORESERVE, -1, 0);
		if (q == MAP_FAILED) break;
		if (q < res) { munmap(q, W); break; }       // nothing above the reservation can take the range any more
		G.plugs.push_back(std::make_pair((void *)q, W));
	}
	munmap(res + lo, W);
	G.plugs.push_back(std::make_pair((void *)res, lo));
	G.plugs.push_back(std::make_pair((void *)(res + lo + W), hi));
	count(p_window);
}
static void release_ring_window()
{
	for (size_t n = 0; n < G.plugs.size(); n++) munmap(G.plugs[n].first, G.plugs[n].second);
	G.plugs.clear();
}
static void on_call(uint32_t site)
{
	if (Gp && G.in_print && site == S_MMAP && ++G.print_mmaps == 2) place_ring_window();
}

static void on_fault(int kind)
{
	if (!Gp) return;
	G.fault_since = true;
	if (kind == F_WRITE_SHORT) count(p_fw_short);
	if (kind == F_WRITE_ERR) count(p_fw_err);
	if (kind == F_WRITE_LOST) count(p_fw_lost);
	if (kind == F_READ_SHORT) count(p_fr_short);
	if (kind == F_READ_ERR) count(p_fr_err);
}

// the printer's locals (message[512], time_buf) land on whatever the stack held before: make that reproducible
static void __attribute__((noinline)) scrub_stack(int style, uint64_t seed)
{
	volatile unsigned char buf[40 * 1024];
	Rng r(seed);
	for (size_t n = 0; n < sizeof buf; n++)
		buf[n] = style == 0 ? 0 : style == 1 ? 0x5a : style == 2 ? (unsigned char)(r.u64() | 1) : (unsigned char)r.u64();
	asm volatile("" : : "r"(buf) : "memory");
}

static bool read_all(const std::string &path, std::vector<uint8_t> &out)
{
	out.clear();
	int fd = open(path.c_str(), O_RDONLY);
	if (fd < 0) return false;
	uint8_t b[65536]; ssize_t n;
	while ((n = read(fd, b, sizeof b)) > 0) out.insert(out.end(), b, b + n);
	close(fd);
	return true;
}
static void write_all(const std::string &path, const std::vector<uint8_t> &d)
{
	int fd = open(path.c_str(), O_WRONLY | O_CREAT | O_TRUNC, 0600);
	if (fd < 0) return;
	size_t off = 0;
	while (off < d.size()) { ssize_t n = write(fd, d.data() + off, d.size() - off); if (n <= 0) break; off += (size_t)n; }
	close(fd);
}
static inline uint32_t rd32(const std::vector<uint8_t> &d, size_t off) { uint32_t v = 0; if (off + 4 <= d.size()) memcpy(&v, &d[off], 4); return v; }
static inline void wr32(std::vector<uint8_t> &d, size_t off, uint32_t v) { if (off + 4 <= d.size()) memcpy(&d[off], &v, 4); }

// view of the ring inside a dump image
struct Img {
	std::vector<uint8_t> &d;
	uint32_t ws, wp, rp;
	bool ok;
	explicit Img(std::vector<uint8_t> &dd) : d(dd), ws(0), wp(0), rp(0), ok(false)
	{
		if (d.size() < DATA_OFF + 16) return;
		ws = rd32(d, BB_HDR); wp = rd32(d, BB_HDR + 4); rp = rd32(d, BB_HDR + 8);
		if (ws == 0 || (uint64_t)ws * 4 + DATA_OFF > d.size() || wp >= ws || rp >= ws) return;
		ok = true;
	}
	uint32_t word(uint32_t w) const { return rd32(d, DATA_OFF + (size_t)(w % ws) * 4); }
	void set_word(uint32_t w, uint32_t v) { wr32(d, DATA_OFF + (size_t)(w % ws) * 4, v); }
	// byte k of the payload of the chunk whose header is at word c
	size_t boff(uint32_t c, uint64_t k) const { return DATA_OFF + (size_t)((((uint64_t)c + 2) * 4 + k) % ((uint64_t)ws * 4)); }
	std::vector<uint32_t> chunks() const
	{
		std::vector<uint32_t> v;
		uint32_t c = rp;
		for (int guard = 0; guard < 100000 && c != wp; guard++) {
			if (word(c + 1) != CHUNK_MAGIC) break;
			v.push_back(c);
			uint32_t sz = word(c);
			uint64_t nx = (uint64_t)c + 2 + sz / 4 + (sz % 4 ? 1 : 0);
			c = (uint32_t)(nx % ws);
		}
		return v;
	}
};

static uint32_t value_mode(int64_t mode, uint32_t raw, uint32_t cur, uint32_t other, uint32_t ws, uint64_t fsize)
{
	switch (mode) {
	case 0: return 0;
	case 1: return 1;
	case 2: return 0xffffffffu;
	case 3: return (uint32_t)(fsize / 4) - 1;
	case 4: return (uint32_t)(fsize / 4);
	case 5: return (uint32_t)(fsize / 4) + 1;
	case 6: return ws - 1;
	case 7: return ws;
	case 8: return ws + 1;
	case 9: return 2 * ws - 1;
	case 10: return 2 * ws;
	case 11: return 2 * ws + raw % 64;
	case 12: return (uint32_t)fsize;
	case 13: return (uint32_t)fsize - raw % 16;
	case 14: return other;
	case 15: return cur + raw % 41 - 20;
	case 16: return raw;
	case 17: return 0x80000000u;
	case 18: return ws * 4;
	case 19: return (uint32_t)((fsize - DATA_OFF) / 4) + raw % 3 - 1;
	case 20: return cur / 2;
	default: return cur + 1024 * (1 + raw % 8);
	}
}

static void apply_damage(const Op &op_in)
{
	std::vector<uint8_t> d;
	if (!read_all(G.path, d)) return;
	Op op = op_in;       // a shrunk plan may carry anything: negative arguments become 0 (except the "bytes off the end" of D_TRUNC)
	int kind = (int)(op.a[0] < 0 ? 0 : op.a[0] % D_N);
	for (int k = 0; k < SIMK_OP_ARGS; k++) if (op.a[k] < 0 && !(kind == D_TRUNC && k == 1)) op.a[k] = 0;
	uint32_t raw = (uint32_t)op.a[4];
	bool done = false;
	switch (kind) {
	case D_TRUNC: {
		int64_t len = op.a[1] < 0 ? (int64_t)d.size() + op.a[1] : op.a[1];
		if (len < 0) len = 0;
		if ((uint64_t)len < d.size()) { d.resize((size_t)len); done = true; }
		break; }
	case D_TRUNC_WRITES: {
		// the process died after the k-th write of the dump: marker block, then five words, then the data
		int64_t k = op.a[1] < 0 ? 0 : op.a[1] % 7;
		size_t len = k == 0 ? 0 : BB_HDR + 4 * (size_t)(k - 1);
		if (len < d.size()) { d.resize(len); done = true; }
		break; }
	case D_HDR: {
		if (d.size() < DATA_OFF) break;
		int field = (int)(op.a[1] < 0 ? 0 : op.a[1] % 5);
		uint32_t ws = rd32(d, BB_HDR), wp = rd32(d, BB_HDR + 4), rp = rd32(d, BB_HDR + 8);
		uint32_t cur = rd32(d, BB_HDR + 4 * (size_t)field);
		uint32_t other = field == 1 ? rp : field == 2 ? wp : ws / 2;
		uint32_t v = value_mode(op.a[2] < 0 ? 0 : op.a[2] % 22, (uint32_t)op.a[4], cur, other, ws ? ws : 1, d.size());
		if (field == 3 && (op.a[2] % 22) > 2) v = (op.a[2] % 2) ? 2 : (uint32_t)op.a[4];
		wr32(d, BB_HDR + 4 * (size_t)field, v);
		if (op.a[3] && field != 4) {
			wr32(d, BB_HDR + 16, rd32(d, BB_HDR) + rd32(d, BB_HDR + 4) + rd32(d, BB_HDR + 8) + rd32(d, BB_HDR + 12));
			count(p_rehash);
		}
		done = v != cur;
		break; }
	case D_BBHDR: {
		if (d.size() < BB_HDR) break;
		size_t off = (size_t)(op.a[1] < 0 ? 0 : op.a[1] % BB_HDR);
		uint8_t x = (uint8_t)(op.a[2] & 0xff); if (!x) x = 1;
		d[off] ^= x;
		done = true;
		break; }
	case D_CHUNK: {
		Img im(d);
		if (!im.ok) break;
		std::vector<uint32_t> cs = im.chunks();
		if (cs.empty()) break;
		uint32_t c = cs[(size_t)(op.a[1] < 0 ? 0 : op.a[1]) % cs.size()];
		uint32_t sz = im.word(c);
		if (op.a[2] & 1) {
			static const uint32_t mg[] = { 0, 0xD0D0D0D0u, 0xA110CED0u, 0xA1A1A1A0u };
			im.set_word(c + 1, (op.a[3] % 5) == 4 ? raw : mg[op.a[3] % 5]);
		} else {
			uint32_t v;
			switch (op.a[3] < 0 ? 0 : op.a[3] % 16) {
			case 0: v = 0; break; case 1: v = 1; break; case 2: v = 0xffffffffu; break; case 3: v = 0x80000000u; break;
			case 4: v = 26; break; case 5: v = 27; break; case 6: v = 28; break; case 7: v = 1023; break; case 8: v = 1024; break;
			case 9: v = 1025; break; case 10: v = sz + 4; break; case 11: v = sz > 4 ? sz - 4 : 0; break; case 12: v = sz + 1; break;
			case 13: v = im.ws * 4 + raw % 65 - 32; break; case 14: v = raw % 9000; break; default: v = (raw & 1) ? raw : 8192 - (raw >> 1) % 8; break;
			}
			im.set_word(c, v);
		}
		done = true;
		break; }
	case D_REC: {
		Img im(d);
		if (!im.ok) break;
		std::vector<uint32_t> cs = im.chunks();
		if (cs.empty()) break;
		uint32_t c = cs[(size_t)(op.a[1] < 0 ? 0 : op.a[1]) % cs.size()];
		uint32_t sz = im.word(c);
		uint32_t fn = 0;
		for (int k = 0; k < 4; k++) fn |= (uint32_t)d[im.boff(c, 9 + (uint64_t)k)] << (8 * k);
		if (fn > 4096) fn = 4096;
		int field = (int)(op.a[2] < 0 ? 0 : op.a[2] % 8);
		uint32_t v;
		switch (op.a[3] < 0 ? 0 : op.a[3] % 12) {
		case 0: v = 0; break; case 1: v = 1; break; case 2: v = 0xffffffffu; break; case 3: v = 0x80000000u; break;
		case 4: v = sz; break; case 5: v = sz > 27 ? sz - 27 : 0; break; case 6: v = sz > 26 ? sz - 26 : 0; break;
		case 7: v = 512; break; case 8: v = 513; break; case 9: v = fn + 1; break; case 10: v = raw % 1100; break; default: v = raw; break;
		}
		uint64_t off; int width = 4;
		switch (field) {
		case 0: off = 0; break;                       // lineno
		case 1: off = 4; break;                       // tags
		case 2: off = 8; width = 1; break;            // priority
		case 3: off = 9; break;                       // fn_size
		case 4: off = 13 + (uint64_t)(fn ? fn - 1 : 0); width = 1; v = 'X'; break;     // function name loses its NUL
		case 5: off = 13 + (uint64_t)fn; width = 8; break;          // tv_sec
		case 6: off = 13 + (uint64_t)fn + 8; width = 8; break;      // tv_nsec
		default: off = 13 + (uint64_t)fn + 16; break;               // msg_len
		}
		uint64_t v64 = width == 8 ? ((op.a[3] % 3) == 0 ? (uint64_t)(int64_t)(int32_t)v : ((uint64_t)v << 32) | raw) : v;
		for (int k = 0; k < width; k++) d[im.boff(c, off + (uint64_t)k)] = (uint8_t)(v64 >> (8 * k));
		done = true;
		break; }
	case D_FMT: {
		Img im(d);
		if (!im.ok) break;
		std::vector<uint32_t> cs = im.chunks();
		if (cs.empty()) break;
		uint32_t c = cs[(size_t)(op.a[1] < 0 ? 0 : op.a[1]) % cs.size()];
		uint32_t sz = im.word(c);
		uint32_t fn = 0;
		for (int k = 0; k < 4; k++) fn |= (uint32_t)d[im.boff(c, 9 + (uint64_t)k)] << (8 * k);
		if (fn > 4096) fn = 4096;
		uint64_t m0 = 13 + (uint64_t)fn + 16 + 4;         // first byte of the serialized message
		if (m0 >= sz) break;
		uint64_t room = sz - m0;
		Rng r((uint64_t)op.a[3]);
		std::string ins;
		switch (op.a[2] < 0 ? 0 : op.a[2] % 12) {
		case 0: ins = "%q%y%!"; break;                                   // unknown conversions
		case 1: ins = "%"; break;                                        // lone percent sign
		case 2: ins = "%%%%"; break;
		case 3: ins = "%s%s%s"; break;                                   // strings that were never stored
		case 4: ins = "%n"; break;
		case 5: ins = "%d%ld%lld%f%c%p%zu"; break;
		case 6: ins = "%0000000000000000000000000000000d"; break;        // flag run longer than the mini format buffer
		case 7: ins = "%999d%999d"; break;                               // expansion beyond the output buffer
		case 8: ins = "%*d%*s"; break;
		case 9: ins = "%.999999s"; break;
		case 10: ins = std::string(600, 'A') + "%d"; break;              // literal prefix longer than the output buffer
		default: break;                                                  // 11: every NUL of the message removed
		}
		if ((op.a[2] % 12) == 11) {
			for (uint64_t k = 0; k < room; k++) { size_t o = im.boff(c, m0 + k); if (d[o] == 0) d[o] = 'N'; }
		} else {
			uint64_t at = r.below(room > 8 ? 8 : room);
			for (uint64_t k = 0; k < ins.size() && at + k < room; k++) d[im.boff(c, m0 + at + k)] = (uint8_t)ins[k];
		}
		done = true;
		break; }
	case D_FLIPS: {
		if (d.empty()) break;
		Rng r((uint64_t)op.a[2]);
		int64_t cnt = op.a[1] < 1 ? 1 : op.a[1] > 64 ? 64 : op.a[1];
		size_t lo = 0, hi = d.size();
		if (op.a[3] % 3 == 1) hi = std::min<size_t>(d.size(), DATA_OFF);
		if (op.a[3] % 3 == 2) {
			Img im(d);
			if (im.ok) { std::vector<uint32_t> cs = im.chunks(); if (!cs.empty()) { lo = DATA_OFF + (size_t)cs[0] * 4; hi = std::min(d.size(), lo + 2048); } }
		}
		if (hi <= lo) { lo = 0; hi = d.size(); }
		for (int64_t k = 0; k < cnt; k++) d[lo + r.below(hi - lo)] ^= (uint8_t)(1u << r.below(8)) | (r.chance(1, 3) ? (uint8_t)r.u64() : 0);
		done = true;
		break; }
	case D_LIMIT: {
		// the chunk is announced as long as the printer's read buffer (2 * QB_LOG_MAX_LEN) and its fn_size is put at the
		// edge of what the printer's bound lets through
		Img im(d);
		if (!im.ok) break;
		std::vector<uint32_t> cs = im.chunks();
		if (cs.empty()) break;
		uint32_t c = cs[(size_t)op.a[1] % cs.size()];
		// (the buffer is 2 * QB_LOG_MAX_LEN today; a printer that accepts QB_LOG_ABSOLUTE_MAX_LEN lines needs 2 * that)
		uint32_t sz = ((op.a[2] & 8) ? 2 * QB_LOG_ABSOLUTE_MAX_LEN : 2 * QB_LOG_MAX_LEN) - (uint32_t)(op.a[2] % 8);
		static const uint32_t back[] = { 27, 26, 33, 35, 0, 13 };
		uint32_t fnv = sz - back[op.a[3] % 6];
		im.set_word(c, sz);
		for (int k = 0; k < 4; k++) d[im.boff(c, 9 + (uint64_t)k)] = (uint8_t)(fnv >> (8 * k));
		done = true;
		break; }
	case D_APPEND: {
		Rng r((uint64_t)op.a[2]);
		int64_t n = op.a[1] < 1 ? 1 : op.a[1] > 100000 ? 100000 : op.a[1];
		for (int64_t k = 0; k < n; k++) d.push_back((uint8_t)r.u64());
		done = true;
		break; }
	}
	if (done) {
		write_all(G.path, d);
		// a dump with bytes appended is still a complete dump (the printer reads what the header announces)
		if (kind != D_APPEND) G.file_state = 2;
		count(p_damage[kind]);
	}
}

static void make_garbage(const Op &op)
{
	int64_t len = op.a[0] < 0 ? 0 : op.a[0] > (1 << 20) ? (1 << 20) : op.a[0];
	Rng r((uint64_t)op.a[1]);
	std::vector<uint8_t> d((size_t)len);
	int style = (int)(op.a[2] < 0 ? 0 : op.a[2] % 5);
	for (size_t n = 0; n < d.size(); n++)
		d[n] = style == 1 ? 0 : style == 2 ? 0xff : (uint8_t)r.u64();
	if (style >= 3 && d.size() >= RB_HDR + 64) {
		// a header that is consistent with the length (old format when style 3, new format when style 4) over random data
		size_t h = 0;
		if (style == 4 && d.size() >= DATA_OFF + 64) {
			uint32_t bb[5] = { 0, 0xCCBBCCBBu, 0xBBCCBBCCu, 2, 0 };
			memcpy(&d[0], bb, sizeof bb);
			h = BB_HDR;
		}
		uint32_t ws = (uint32_t)((d.size() - h - RB_HDR) / 4);
		uint32_t wp = (uint32_t)r.below(ws), rp = (uint32_t)r.below(ws);
		wr32(d, h, ws); wr32(d, h + 4, wp); wr32(d, h + 8, rp); wr32(d, h + 12, RB_VERSION); wr32(d, h + 16, ws + wp + rp + RB_VERSION);
		// make the chunk at the read position look committed so that record decoding is reached
		wr32(d, h + RB_HDR + (size_t)rp * 4, (uint32_t)r.range(0, 1100));
		wr32(d, h + RB_HDR + (size_t)((rp + 1) % ws) * 4, CHUNK_MAGIC);
		count(p_rehash);
	}
	write_all(G.path, d);
	G.file_state = 2;
	count(p_print_garbage);
}

static int shm_leftover(std::string &name)
{
	char pre[64];
	snprintf(pre, sizeof pre, "qb-create_from_file%d-", (int)getpid());
	int n = 0;
	DIR *dir = opendir("/dev/shm");
	if (!dir) return 0;
	struct dirent *de;
	while ((de = readdir(dir))) if (!strncmp(de->d_name, pre, strlen(pre))) { if (!n) name = de->d_name + strlen(pre); n++; }
	closedir(dir);
	return n;
}
static void shm_leftover_remove()
{
	char pre[64], p[PATH_MAX];
	snprintf(pre, sizeof pre, "qb-create_from_file%d-", (int)getpid());
	DIR *dir = opendir("/dev/shm");
	if (!dir) return;
	struct dirent *de;
	while ((de = readdir(dir))) if (!strncmp(de->d_name, pre, strlen(pre))) { snprintf(p, sizeof p, "/dev/shm/%s", de->d_name); unlink(p); }
	closedir(dir);
}

// ------------------------------------------------------------------ printed output
struct Line { std::string prio, time, fn, msg; uint32_t lineno = 0, tags = 0; };

static bool parse_line(const std::string &l, Line &o)
{
	size_t p = l.find(' ');
	if (p == std::string::npos || p == 0 || p > 7) return false;
	o.prio = l.substr(0, p);
	while (p < l.size() && l[p] == ' ') p++;
	if (p + 20 > l.size()) return false;
	o.time = l.substr(p, 19);               // "%b %d %T" + ".mmm"
	p += 19;
	if (l[p] != ' ') return false;
	p++;
	size_t q = l.find('(', p);
	if (q == std::string::npos) return false;
	o.fn = l.substr(p, q - p);
	p = q + 1;
	uint64_t v = 0; size_t nd = 0;
	while (p < l.size() && l[p] >= '0' && l[p] <= '9' && nd < 11) { v = v * 10 + (uint64_t)(l[p] - '0'); p++; nd++; }
	if (!nd || v > 0xffffffffULL || p + 1 >= l.size() || l[p] != ')' || l[p + 1] != ':') return false;
	o.lineno = (uint32_t)v;
	p += 2;
	v = 0; nd = 0;
	while (p < l.size() && l[p] >= '0' && l[p] <= '9' && nd < 11) { v = v * 10 + (uint64_t)(l[p] - '0'); p++; nd++; }
	if (!nd || v > 0xffffffffULL || p + 1 >= l.size() || l[p] != ':' || l[p + 1] != ' ') return false;
	o.tags = (uint32_t)v;
	o.msg = l.substr(p + 2);
	return true;
}

static std::string strip_nl(const std::string &s)
{
	size_t n = s.size();
	while (n > 0 && s[n - 1] == '\n') n--;
	return s.substr(0, n);
}

static const char *const PRIO[] = { "emerg", "alert", "crit", "error", "warning", "notice", "info", "debug", "trace" };
static const char *PSITE = "qb_log_blackbox_print_from_file";

static void check_pristine(const std::string &out, int rc)
{
	// the dump held the records logged before it: G.recs[0 .. dump_n)
	size_t N = G.dump_n;
	std::vector<Line> got;
	size_t pos = 0;
	uint64_t internal = 0;
	while (pos < out.size()) {
		size_t e = out.find('\n', pos);
		std::string l = out.substr(pos, e == std::string::npos ? std::string::npos : e - pos);
		pos = e == std::string::npos ? out.size() : e + 1;
		if (l.compare(0, 11, "Ringbuffer:") == 0 || l.compare(0, 3, " ->") == 0 || l.compare(0, 3, " =>") == 0) continue;   // print_header()
		Line ln;
		if (!parse_line(l, ln)) {
			VIOL(15, "print-garbled-line", PSITE, "printing a complete dump of %zu logged records produced a line that is not a record: \"%.120s\"", N, l.c_str());
			if (which == 11) {
				// for C11 a line that cannot be attributed breaks the run of serials only if nothing else explains it: keep going
			}
			continue;
		}
		// libqb's own messages (qb_util_log, qb_enter) share the blackbox: they come from its source files, whose line
		// numbers are all far below the ones this harness logs with
		if (ln.lineno < LINENO_MIN) { internal++; continue; }
		got.push_back(ln);
	}
	count(p_internal_records, internal);
	if (failed()) return;
	size_t m = got.size();
	ev(120, rc, (int64_t)m, (int64_t)N);
	if (N == 0) {
		if (m) VIOL(11, "foreign-record", PSITE, "nothing had been logged before the dump, yet %zu records were printed (first line %u)", m, got[0].lineno);
		return;
	}
	if (m == 0) {
		VIOL(11, "dump-empty", PSITE, "%zu records were logged before the dump (newest #%zu) but the printed dump holds none (rc=%d)", N, N, rc);
		VIOL(15, "retained-record-not-printed", PSITE, "%zu records were logged before the dump but none was printed (rc=%d)", N, rc);
		return;
	}
	if (m < N) count(p_wrapped);
	// C11: contiguous ascending serials ending with the newest
	for (size_t i = 0; i < m; i++) {
		int64_t serial = (int64_t)got[i].lineno - (int64_t)G.lineno_base;
		if (serial < 1 || serial > (int64_t)N) {
			VIOL(11, "foreign-record", PSITE, "printed record %zu of %zu has line number %u, which is none of the %zu logged before the dump", i + 1, m, got[i].lineno, N);
			VIOL(15, "roundtrip-line", PSITE, "printed record %zu of %zu has line number %u, which is none of the %zu logged before the dump", i + 1, m, got[i].lineno, N);
			return;
		}
		if (i > 0) {
			int64_t prev = (int64_t)got[i - 1].lineno - (int64_t)G.lineno_base;
			if (serial != prev + 1) {
				VIOL(11, "order-gap", PSITE, "printed records %zu and %zu are #%lld and #%lld of %zu: not an unbroken ascending run", i, i + 1, (long long)prev, (long long)serial, N);
				VIOL(15, "retained-record-not-printed", PSITE, "printed records %zu and %zu are #%lld and #%lld of %zu", i, i + 1, (long long)prev, (long long)serial, N);
				return;
			}
		}
	}
	int64_t last = (int64_t)got[m - 1].lineno - (int64_t)G.lineno_base;
	if (last != (int64_t)N) {
		VIOL(11, "newest-missing", PSITE, "the last printed record is #%lld but #%zu was the last one logged before the dump (%zu printed)", (long long)last, N, m);
		VIOL(15, "retained-record-not-printed", PSITE, "the last printed record is #%lld but #%zu was the last one logged before the dump", (long long)last, N);
		return;
	}
	// C15: every printed record carries what it was logged with
	for (size_t i = 0; i < m && !failed(); i++) {
		const Rec &e = G.recs[(size_t)((int64_t)got[i].lineno - (int64_t)G.lineno_base) - 1];
		const Line &g = got[i];
		count(p_records_checked);
		if (g.prio != PRIO[e.prio > 8 ? 8 : e.prio])
			VIOL(15, "roundtrip-priority", PSITE, "record #%u logged with priority %u (%s) is printed as \"%s\"", e.serial, e.prio, PRIO[e.prio > 8 ? 8 : e.prio], g.prio.c_str());
		else if (g.fn != e.fn)
			VIOL(15, "roundtrip-function", PSITE, "record #%u logged from \"%.60s\" (%zu chars) is printed with function \"%.60s\" (%zu chars)", e.serial, e.fn.c_str(), e.fn.size(), g.fn.c_str(), g.fn.size());
		else if (g.tags != e.tags)
			VIOL(15, "roundtrip-tags", PSITE, "record #%u logged with tags %u is printed with tags %u", e.serial, e.tags, g.tags);
		else if (e.prefix.compare(8, 19, g.time) != 0)
			VIOL(15, "roundtrip-timestamp", PSITE, "record #%u logged at \"%s\" is printed with time \"%s\"", e.serial, e.prefix.substr(8, 19).c_str(), g.time.c_str());
		else {
			std::string want = strip_nl(e.text);
			if (g.msg == want) continue;
			if (e.overlong) {
				count(p_overlong);
				if (g.msg == NOTICE) { count(p_overlong_notice); continue; }
				// a text cut at the line length is acceptable too
				if (g.msg.size() >= 16 && want.compare(0, g.msg.size(), g.msg) == 0) continue;
			}
			size_t k = 0;
			while (k < g.msg.size() && k < want.size() && g.msg[k] == want[k]) k++;
			const char *cls = e.hazard == HZ_PCT ? "roundtrip-message-after-percent-literal" : e.hazard == HZ_PREC ? "roundtrip-message-after-precision" :
					  e.hazard == HZ_WIDE ? "roundtrip-message-long-text" : e.hazard == HZ_GEN ? "roundtrip-message-generated-format" : "roundtrip-message";
			VIOL(15, cls, PSITE, "record #%u: text differs at char %zu (logged %zu chars, printed %zu; serialized size %zu, line length %u): logged \"%.50s\" printed \"%.50s\" format \"%.80s\"",
			     e.serial, k, want.size(), g.msg.size(), e.ser, G.mll, want.c_str() + (k > 10 ? k - 10 : 0), g.msg.c_str() + (k > 10 ? k - 10 : 0), e.fmt.c_str());
		}
	}
	if (!failed()) { G.checked += m; count(p_print_pristine); }
}

// ------------------------------------------------------------------ the task
static void cap_begin()
{
	// Everything libqb prints (print_header() in the dump path as well) goes to a memory stream for the length of the run.
	// stdout itself (descriptor 1) is the worker's protocol channel to the driver and is left alone, so that a crash
	// inside the printer is still reported on it with the index of the run.
	fflush(stdout);
	G.saved_stdout = stdout;
	G.cap = open_memstream(&G.capbuf, &G.caplen);
	if (G.cap) stdout = G.cap;
}
static void cap_end()
{
	if (!Gp || !G.saved_stdout) return;
	if (G.cap) { fflush(G.cap); stdout = G.saved_stdout; fclose(G.cap); G.cap = NULL; free(G.capbuf); G.capbuf = NULL; }
	G.saved_stdout = NULL;
}

static void op_log(const Op &op)
{
	uint32_t serial = (uint32_t)G.recs.size() + 1;
	if (serial > 3000) return;
	int fid = (int)(op.a[0] < 0 ? 0 : op.a[0] % N_FMTS);
	const Fmt &f = FMTS[fid];
	Args a;
	make_args(fid, (uint64_t)op.a[1], serial, G.mll, a);
	std::string fmt = f.fmt;
	if (f.shape == SH_FILL) fmt += a.fill;
	if (f.shape == SH_GEN) fmt += a.genfmt;
	Rec rec;
	rec.serial = serial;
	rec.lineno = G.lineno_base + serial;
	rec.prio = (uint8_t)(op.a[2] < 0 ? 0 : op.a[2] > 8 ? 8 : op.a[2]);
	rec.tags = (uint32_t)op.a[3] & 0x7fffffffu;
	size_t fl = (size_t)(op.a[4] < 1 ? 1 : op.a[4] > 300 ? 300 : op.a[4]);
	{
		Rng r(mix64((uint64_t)op.a[1] ^ serial));
		static const char idc[] = "abcdefghijklmnopqrstuvwxyzABCDEFGHIJKLMNOPQRSTUVWXYZ_0123456789:~<>,*&";
		rec.fn.push_back(idc[r.below(53)]);
		while (rec.fn.size() < fl) rec.fn.push_back(idc[r.below(fl > 40 ? sizeof idc - 1 : 63)]);
	}
	int64_t dt = op.a[5] < 0 ? 0 : op.a[5] > 400000000000000LL ? 400000000000000LL : op.a[5];
	if (dt) advance_ns(dt);
	uint64_t now = (uint64_t)real_base() + (uint64_t)now_ns();
	time_t sec = (time_t)(now / 1000000000ULL);
	unsigned long long ms = (now % 1000000000ULL) / 1000000ULL;
	rec.text = expect_text(fmt.c_str(), f.shape, a);
	// unless the plan allows texts of 511 characters and more (hazard group "text-longer-than-511"), shorten the string arguments
	for (int guard = 0; guard < 40 && G.text_cap && rec.text.size() > (size_t)G.text_cap && f.hazard == HZ_NONE; guard++) {
		std::string &big = a.s1.size() >= a.s2.size() && a.s1.size() >= a.s3.size() ? a.s1 : a.s2.size() >= a.s3.size() ? a.s2 : a.s3;
		if (big.empty() && a.fill.empty()) break;
		if (!big.empty()) big.resize(big.size() - std::min<size_t>(big.size(), rec.text.size() - (size_t)G.text_cap));
		else { a.fill.resize(a.fill.size() - std::min<size_t>(a.fill.size(), rec.text.size() - (size_t)G.text_cap)); fmt = std::string(f.fmt) + a.fill; }
		rec.text = expect_text(fmt.c_str(), f.shape, a);
	}
	{
		// the extended-information marker is stored as '|' (log_format.c: serialized output always carries the extended part)
		size_t x = rec.text.find(QB_XC);
		if (x != std::string::npos) { if (x + 1 < rec.text.size()) rec.text[x] = '|'; else rec.text.erase(x); }
	}
	rec.ser = ser_size(fmt, f.shape, a);
	rec.hazard = f.hazard;
	rec.fmt = fmt.substr(0, 80);
	rec.overlong = rec.ser + 8 >= G.mll;
	char tb[64], pre[512];
	struct tm tmv;
	if (localtime_r(&sec, &tmv)) { size_t sl = strftime(tb, sizeof tb, "%b %d %T", &tmv); snprintf(tb + sl, sizeof tb - sl, ".%03llu", ms); }
	else snprintf(tb, sizeof tb, "%ld", (long)sec);
	snprintf(pre, sizeof pre, "%-7s %s ", PRIO[rec.prio], tb);
	rec.prefix = pre;
	if (!rec.text.empty() && rec.text[rec.text.size() - 1] == '\n') count(p_newline_stripped);
	ev(100, fid, (int64_t)rec.ser, (int64_t)rec.fn.size());
	G.recs.push_back(rec);
	do_log(rec.fn.c_str(), "blackbox_harness.c", fmt.c_str(), rec.prio, rec.lineno, rec.tags, f.shape, a);
}

static void op_dump()
{
	unlink(G.path.c_str());
	G.fault_since = false;
	G.in_dump = true;
	ssize_t r = qb_log_blackbox_write_to_file(G.path.c_str());
	G.in_dump = false;
	long page = sysconf(_SC_PAGESIZE);
	int64_t want = DATA_OFF + (int64_t)((((uint64_t)G.S + 13 + (uint64_t)page - 1) / (uint64_t)page) * (uint64_t)page);
	ev(101, r == want ? 1 : r > 0 ? 2 : 0, G.fault_since);
	G.dump_n = G.recs.size();
	G.ndumps++;
	if (G.ndumps == 2) count(p_second_dump);
	if (G.recs.empty()) count(p_empty_dump);
	struct stat st;
	bool exists = stat(G.path.c_str(), &st) == 0;
	if (!G.fault_since) {
		if (r != want)
			VIOL(0, "dump-failed", "qb_log_blackbox_write_to_file", "dump of a %u byte blackbox holding %zu records returned %zd (expected %lld bytes), errno %d, no fault injected",
			     G.S, G.recs.size(), r, (long long)want, errno);
		G.file_state = 1;
		count(p_dump_ok);
	} else {
		// a dump hit by a storage fault may fail, or may leave a damaged file behind: both are allowed
		G.file_state = exists ? 2 : 0;
		if (r <= 0 || r != want) count(p_dump_failed); else count(p_dump_damaged_by_fault);
	}
}

static void op_print()
{
	if (G.mode == 0 && G.file_state == 0) return;
	if (G.file_state == 0) count(p_nofile_print);
	fflush(stdout);
	size_t off = G.cap ? G.caplen : 0;
	G.fault_since = false;
	scrub_stack(G.stack_fill, G.spec->seed);
	unsigned prev_alarm = alarm(60);       // wall-clock backstop for a printer that spins without making a libc call
	G.print_mmaps = 0;
	G.in_print = true;
	int rc = qb_log_blackbox_print_from_file(G.path.c_str());
	G.in_print = false;
	release_ring_window();
	alarm(prev_alarm);
	fflush(stdout);
	std::string out;
	if (G.cap && G.caplen > off) out.assign(G.capbuf + off, G.caplen - off);
	bool pristine = G.file_state == 1 && !G.fault_since;
	if (getenv("SIMK_BB_DEBUG")) fprintf(stderr, "---- print rc=%d pristine=%d dump_n=%zu\n%s----\n", rc, pristine, G.dump_n, out.c_str());
	if (G.fault_since) count(p_read_fault_print);
	ev(102, pristine ? 1 : 0, rc);
	// robustness half: whatever the file was, no temporary shared memory of this process may be left behind
	std::string left;
	int nleft = shm_leftover(left);
	count(p_shmcheck);
	if (nleft) {
		VIOL(15, "shm-leftover", PSITE, "after printing (rc=%d, file %s) %d file(s) /dev/shm/qb-create_from_file-* are left behind (first: ...-%s)",
		     rc, pristine ? "pristine" : "damaged", nleft, left.c_str());
		shm_leftover_remove();
	}
	if (pristine) check_pristine(out, rc);
	else {
		G.damaged_done++;
		if (rc == 0) count(p_print_damaged_ok); else count(p_print_damaged_err);
		if (out.find("\n") != std::string::npos && out.find("Ringbuffer:") != std::string::npos) count(p_deep_print);
	}
}

static void bb_task(void *)
{
	const Plan &p = G.spec->plan;
	qb_log_init(G.name, LOG_USER, LOG_EMERG);
	G.inited = true;
	qb_log_ctl(QB_LOG_SYSLOG, QB_LOG_CONF_ENABLED, QB_FALSE);
	int32_t rc = qb_log_ctl(QB_LOG_BLACKBOX, QB_LOG_CONF_SIZE, (int32_t)G.S);
	if (rc == 0 && p.get("mll") > 0) { rc = qb_log_ctl(QB_LOG_BLACKBOX, QB_LOG_CONF_MAX_LINE_LEN, (int32_t)G.mll); count(p_mll_set); }
	if (rc == 0) rc = qb_log_ctl(QB_LOG_BLACKBOX, QB_LOG_CONF_ENABLED, QB_TRUE);
	if (rc == 0) rc = qb_log_filter_ctl(QB_LOG_BLACKBOX, QB_LOG_FILTER_ADD, QB_LOG_FILTER_FILE, "*", LOG_TRACE);
	if (rc != 0) {
		qb_log_fini();
		G.inited = false;
		fail("setup-failed", "qb_log_ctl", "enabling a %u byte blackbox (line length %u) failed with %d", G.S, G.mll, rc);
		return;
	}
	for (size_t i = 0; i < p.ops.size() && !failed(); i++) {
		const Op &op = p.ops[i];
		switch (op.kind) {
		case K_LOG: op_log(op); break;
		case K_DUMP: op_dump(); break;
		case K_DAMAGE:
			ev(103, op.a[0], op.a[1], op.a[2]);
			if (G.mode == 1 && G.file_state != 0) apply_damage(op);
			break;
		case K_GARBAGE:
			ev(104, op.a[0], op.a[2]);
			if (G.mode == 1) make_garbage(op);
			break;
		case K_PRINT: op_print(); break;
		default: break;
		}
	}
	qb_log_fini();
	G.inited = false;
}

static int count_fds()
{
	int n = 0;
	DIR *d = opendir("/proc/self/fd");
	if (!d) return -1;
	while (readdir(d)) n++;
	closedir(d);
	return n;
}

static void run_scenario(const char *prop, const RunSpec &spec)
{
	which = atoi(prop + 1);
	const Plan &p = spec.plan;
	St st;
	Gp = &st;
	G.spec = &spec;
	G.mode = which == 11 ? 0 : (p.get("mode") ? 1 : 0);
	G.S = (uint32_t)std::max<int64_t>(1024, std::min<int64_t>(1 << 20, p.get("size", 1024)));
	int64_t mll = p.get("mll");
	G.mll = mll <= 0 ? QB_LOG_MAX_LEN : (uint32_t)std::max<int64_t>(16, std::min<int64_t>(QB_LOG_ABSOLUTE_MAX_LEN, mll));
	if (G.mll > 512 && G.S < 3 * G.mll + 1024) G.S = 3 * G.mll + 1024;
	G.lineno_base = (uint32_t)std::max<int64_t>(LINENO_MIN, std::min<int64_t>(60000, p.get("lineno_base")));
	G.stack_fill = (int)(p.get("stack_fill") & 3);
	G.text_cap = (int)std::max<int64_t>(0, std::min<int64_t>(8000, p.get("text_cap")));
	G.path = std::string(scratch_dir()) + "/dump";
	snprintf(G.name, sizeof G.name, "bb%07d", (int)(getpid() % 10000000));
	int fds0 = count_fds();

	shim_reset();
	ShimCfg &c = shim_cfg();
	c.shm_quota_bytes = 64 << 20;            // bounds what a lying word_size can make the printer allocate
	shim_random_seed(spec.seed);
	shim_hooks().on_fault = on_fault;
	shim_hooks().on_call = on_call;

	SchedCfg sc;
	sched_cfg_from_seed(spec.seed, 1, 1000, 2000000, sc);
	sc.strategy = ST_SEQ;
	sched_begin(spec, sc);
	int64_t rs = std::max<int64_t>(0, std::min<int64_t>(4000000000LL, p.get("real_base_s", 1700000000)));
	int64_t rn = std::max<int64_t>(0, std::min<int64_t>(999999999, p.get("real_base_ns")));
	set_time_base(1000000000, rs * 1000000000LL + rn);
	cap_begin();
	task_create(1, bb_task, NULL, "blackbox");
	sched_run();
	bool in_print = G.in_print;
	sched_end();
	cap_end();
	Result &res = result();
	if (res.verdict == V_INCONCLUSIVE && in_print && !strcmp(res.site, "step-cap"))
		VIOL(15, "print-no-termination", PSITE, "the printer made more than %llu libc calls without returning", (unsigned long long)sc.step_cap);
	if (G.inited) {
		// the run was torn down inside the task: remove what qb_log_fini would have removed (the worker is recycled anyway)
		char f[PATH_MAX];
		snprintf(f, sizeof f, "/dev/shm/qb-%s-1-blackbox-header", G.name); unlink(f);
		snprintf(f, sizeof f, "/dev/shm/qb-%s-1-blackbox-data", G.name); unlink(f);
		shm_leftover_remove();
	} else if (res.verdict == V_OK) {
		char f[PATH_MAX];
		struct stat sb;
		snprintf(f, sizeof f, "/dev/shm/qb-%s-1-blackbox-data", G.name);
		if (stat(f, &sb) == 0) { unlink(f); fail("blackbox-ring-leftover", "qb_log_fini", "the blackbox ring's data file still exists after qb_log_fini"); }
		int fds1 = count_fds();
		if (fds0 >= 0 && fds1 != fds0) fail("descriptor-leak", "run", "%d descriptors open before the run, %d after it", fds0, fds1);
	}
	unlink(G.path.c_str());
	set_nontrivial(G.checked >= 2 || G.damaged_done >= 1);
	res.fingerprint = res.ev_hash;
	Gp = NULL;
}

// Every run executes in a child process of its own. Reason: qb_log_fini() does not return the logging layer to its initial
// state (log_dcs.c never resets callsite_arr_next, so the dynamic call-site table of the next qb_log_init() starts where the
// previous one ended, qb_log_fini gets slower with every cycle and the 65536th call site of a process aborts on an assert),
// and a run must not depend on how many runs its worker process has executed before. Verdict, event hash, counters and the
// fault trace live in the simulator's shared mapping, so the parent sees them. A child that dies (assert, ASan, signal) is
// followed by its parent, in the same manner, so that the driver's crash classification works unchanged.
static void run(const char *prop, const RunSpec &spec)
{
	if (getenv("SIMK_BB_NOFORK")) { run_scenario(prop, spec); return; }
	fflush(stdout); fflush(stderr);
	pid_t pid = fork();
	if (pid < 0) { inconclusive("fork-failed"); return; }
	if (pid == 0) {
		run_scenario(prop, spec);
		_exit(0);
	}
	int status = 0;
	while (waitpid(pid, &status, 0) < 0 && errno == EINTR) { }
	if (WIFEXITED(status) && WEXITSTATUS(status) == 0) return;
	// remove what the dead child left in /dev/shm (its names carry its pid)
	char f[PATH_MAX], pre[64];
	snprintf(f, sizeof f, "/dev/shm/qb-bb%07d-1-blackbox-header", (int)(pid % 10000000)); unlink(f);
	snprintf(f, sizeof f, "/dev/shm/qb-bb%07d-1-blackbox-data", (int)(pid % 10000000)); unlink(f);
	snprintf(pre, sizeof pre, "qb-create_from_file%d-", (int)pid);
	DIR *dir = opendir("/dev/shm");
	if (dir) {
		struct dirent *de;
		while ((de = readdir(dir))) if (!strncmp(de->d_name, pre, strlen(pre))) { snprintf(f, sizeof f, "/dev/shm/%s", de->d_name); unlink(f); }
		closedir(dir);
	}
	char b[96];
	int n = snprintf(b, sizeof b, "\nCRASH {\"signal\":%d,\"index\":%llu}\n", WIFSIGNALED(status) ? WTERMSIG(status) : 0, (unsigned long long)spec.index);
	if (write(1, b, (size_t)n)) { }
	if (WIFSIGNALED(status)) {
		struct rlimit rl = { 0, 0 };
		setrlimit(RLIMIT_CORE, &rl);
		signal(WTERMSIG(status), SIG_DFL);
		raise(WTERMSIG(status));
		sigset_t ss; sigemptyset(&ss); sigaddset(&ss, WTERMSIG(status)); sigprocmask(SIG_UNBLOCK, &ss, NULL);
		kill(getpid(), WTERMSIG(status));
	}
	_exit(WIFEXITED(status) ? WEXITSTATUS(status) : 99);
}

static const Harness H = {
	"blackbox", op_names, K_N, shim_fault_names, F_N, gen, run, init,
	"a run is one seeded program for the logging blackbox inside one simulator task: blackbox size and line length, n log calls "
	"(serials, priorities, function names, tags, formats, arguments, virtual timestamps), dump(s) at seeded instants between log "
	"calls, then per run either nothing (round trip) or a fault program (short / failing / lost write during the dump, truncation, "
	"field-targeted corruption with recomputed header hash, byte flips, never-a-dump files, short / failing reads while printing), "
	"then qb_log_blackbox_print_from_file with stdout captured; non-trivial = at least two records were logged, dumped, printed and "
	"compared, or a damaged file was printed to completion; distinct = distinct hash of the (operation, argument, outcome) sequence"
};

int main(int argc, char **argv) { return harness_main(argc, argv, &H); }
