/* include/config.h.  Generated from config.h.in by configure.  */
/* include/config.h.in.  Generated from configure.ac by autoheader.  */

/* building in place */
#define BUILDING_IN_PLACE 1

/* Compiling Debugging code */
/* #undef DEBUG */

/* Disable shared mem ipc */
/* #undef DISABLE_IPC_SHM */

/* Disable _POSIX_THREAD_PROCESS_SHARED */
/* #undef DISABLE_POSIX_THREAD_PROCESS_SHARED */

/* for sockets config file */
#define FORCESOCKETSFILE "/etc/libqb/force-filesystem-sockets"

/* Define to 1 if you have the `alarm' function. */
#define HAVE_ALARM 1

/* Define to 1 if you have the <arpa/inet.h> header file. */
#define HAVE_ARPA_INET_H 1

/* Define to 1 if your system has a working `chown' function. */
#define HAVE_CHOWN 1

/* Define to 1 if you have the `clock_gettime' function. */
#define HAVE_CLOCK_GETTIME 1

/* Define to 1 if you have the declaration of `strerror_r', and to 0 if you
   don't. */
#define HAVE_DECL_STRERROR_R 1

/* "Have /usr/share/dict/words" */
/* #undef HAVE_DICT_WORDS */

/* Define to 1 if you have the <dlfcn.h> header file. */
#define HAVE_DLFCN_H 1

/* Define to 1 if you have the `epoll_create' function. */
#define HAVE_EPOLL_CREATE 1

/* Define to 1 if you have the `epoll_create1' function. */
#define HAVE_EPOLL_CREATE1 1

/* Define to 1 if you have the <errno.h> header file. */
#define HAVE_ERRNO_H 1

/* have failure injection */
#define HAVE_FAILURE_INJECTION 1

/* Define to 1 if you have the <fcntl.h> header file. */
#define HAVE_FCNTL_H 1

/* Define to 1 if you have the `fdatasync' function. */
#define HAVE_FDATASYNC 1

/* Define to 1 if you have the `fork' function. */
#define HAVE_FORK 1

/* Define to 1 if you have the `fsync' function. */
#define HAVE_FSYNC 1

/* Define to 1 if you have the `ftruncate' function. */
#define HAVE_FTRUNCATE 1

/* have builtin atomic operations */
#define HAVE_GCC_BUILTINS_FOR_ATOMIC_OPERATIONS 1

/* have builtin sync operations */
#define HAVE_GCC_BUILTINS_FOR_SYNC_OPERATIONS 1

/* gcc can complain about missing format attribute */
#define HAVE_GCC_FORMAT_COMPLAINTS /**/

/* gcc supports -Wmissing-format-attribute */
#define HAVE_GCC_MISSING_FORMAT_ATTRIBUTE /**/

/* gcc supports -Wsuggest-attribute=format */
#define HAVE_GCC_SUGGEST_ATTRIBUTE_FORMAT /**/

/* Define to 1 if you have the `getpagesize' function. */
#define HAVE_GETPAGESIZE 1

/* Define to 1 if you have the `getpeereid' function. */
/* #undef HAVE_GETPEEREID */

/* Define to 1 if you have the `getpeerucred' function. */
/* #undef HAVE_GETPEERUCRED */

/* Define to 1 if you have the `getrlimit' function. */
#define HAVE_GETRLIMIT 1

/* Define to 1 if you have the `gettimeofday' function. */
#define HAVE_GETTIMEOFDAY 1

/* We have glib */
#define HAVE_GLIB 1

/* Define to 1 if you have the <inttypes.h> header file. */
#define HAVE_INTTYPES_H 1

/* Define to 1 if you have the `kqueue' function. */
/* #undef HAVE_KQUEUE */

/* Define to 1 if you have the `asan' library (-lasan). */
/* #undef HAVE_LIBASAN */

/* Define to 1 if you have the `tsan' library (-ltsan). */
/* #undef HAVE_LIBTSAN */

/* Define to 1 if you have the `ubsan' library (-lubsan). */
/* #undef HAVE_LIBUBSAN */

/* Define to 1 if you have the <limits.h> header file. */
#define HAVE_LIMITS_H 1

/* Define to 1 if you have the <link.h> header file. */
#define HAVE_LINK_H 1

/* Define to 1 if you have the `localtime' function. */
#define HAVE_LOCALTIME 1

/* Define to 1 if you have the `localtime_r' function. */
#define HAVE_LOCALTIME_R 1

/* Define to 1 if you have the `memset' function. */
#define HAVE_MEMSET 1

/* Define to 1 if you have the <minix/config.h> header file. */
/* #undef HAVE_MINIX_CONFIG_H */

/* Define to 1 if you have a working `mmap' system call. */
#define HAVE_MMAP 1

/* Define this symbol if you have MSG_NOSIGNAL */
#define HAVE_MSG_NOSIGNAL 1

/* Define to 1 if you have the `munmap' function. */
#define HAVE_MUNMAP 1

/* Define to 1 if you have the <netdb.h> header file. */
#define HAVE_NETDB_H 1

/* Define to 1 if you have the <netinet/in.h> header file. */
#define HAVE_NETINET_IN_H 1

/* Define to 1 if you have the `openat' function. */
#define HAVE_OPENAT 1

/* Define to 1 if you have the `poll' function. */
#define HAVE_POLL 1

/* Define to 1 if you have the `posix_fallocate' function. */
#define HAVE_POSIX_FALLOCATE 1

/* Define if you have POSIX threads libraries and header files. */
#define HAVE_PTHREAD 1

/* Define to 1 if you have the `pthread_condattr_setpshared' function. */
#define HAVE_PTHREAD_CONDATTR_SETPSHARED 1

/* Define to 1 if you have the `pthread_mutexattr_setpshared' function. */
#define HAVE_PTHREAD_MUTEXATTR_SETPSHARED 1

/* Have PTHREAD_PRIO_INHERIT. */
#define HAVE_PTHREAD_PRIO_INHERIT 1

/* Define to 1 if you have the `pthread_setschedparam' function. */
#define HAVE_PTHREAD_SETSCHEDPARAM 1

/* Define to 1 if you have the `pthread_spin_lock' function. */
#define HAVE_PTHREAD_SPIN_LOCK 1

/* Define to 1 if you have the `rand' function. */
#define HAVE_RAND 1

/* Define to 1 if you have the `random' function. */
#define HAVE_RANDOM 1

/* Define to 1 if you have the `semtimedop' function. */
#define HAVE_SEMTIMEDOP 1

/* Define to 1 if you have union semun. */
/* #undef HAVE_SEMUN */

/* Define to 1 if you have the `sem_timedwait' function. */
#define HAVE_SEM_TIMEDWAIT 1

/* have slow tests */
/* #undef HAVE_SLOW_TESTS */

/* Define to 1 if you have the `socket' function. */
#define HAVE_SOCKET 1

/* Define this symbol if you have SO_NOSIGPIPE */
/* #undef HAVE_SO_NOSIGPIPE */

/* Define to 1 if you have the <stddef.h> header file. */
#define HAVE_STDDEF_H 1

/* Define to 1 if you have the <stdint.h> header file. */
#define HAVE_STDINT_H 1

/* Define to 1 if you have the <stdio.h> header file. */
#define HAVE_STDIO_H 1

/* Define to 1 if you have the <stdlib.h> header file. */
#define HAVE_STDLIB_H 1

/* Define to 1 if you have the `strcasecmp' function. */
#define HAVE_STRCASECMP 1

/* Define to 1 if you have the `strchr' function. */
#define HAVE_STRCHR 1

/* Define to 1 if you have the `strchrnul' function. */
#define HAVE_STRCHRNUL 1

/* Define to 1 if you have the `strdup' function. */
#define HAVE_STRDUP 1

/* Define if you have `strerror_r'. */
#define HAVE_STRERROR_R 1

/* Define to 1 if you have the <strings.h> header file. */
#define HAVE_STRINGS_H 1

/* Define to 1 if you have the <string.h> header file. */
#define HAVE_STRING_H 1

/* Define to 1 if you have the `strlcat' function. */
/* #undef HAVE_STRLCAT */

/* Define to 1 if you have the `strlcpy' function. */
/* #undef HAVE_STRLCPY */

/* Define to 1 if you have the `strrchr' function. */
#define HAVE_STRRCHR 1

/* Define to 1 if you have the `strstr' function. */
#define HAVE_STRSTR 1

/* Define to 1 if struct sockaddr_un has a member sun_len */
/* #undef HAVE_STRUCT_SOCKADDR_UN_SUN_LEN */

/* Define to 1 if you have the `sysconf' function. */
#define HAVE_SYSCONF 1

/* Define to 1 if you have the <syslog.h> header file. */
#define HAVE_SYSLOG_H 1

/* Define to 1 if you have the <sys/epoll.h> header file. */
#define HAVE_SYS_EPOLL_H 1

/* Define to 1 if you have the <sys/event.h> header file. */
/* #undef HAVE_SYS_EVENT_H */

/* Define to 1 if you have the <sys/ipc.h> header file. */
#define HAVE_SYS_IPC_H 1

/* Define to 1 if you have the <sys/mman.h> header file. */
#define HAVE_SYS_MMAN_H 1

/* Define to 1 if you have the <sys/msg.h> header file. */
#define HAVE_SYS_MSG_H 1

/* Define to 1 if you have the <sys/param.h> header file. */
#define HAVE_SYS_PARAM_H 1

/* Define to 1 if you have the <sys/poll.h> header file. */
#define HAVE_SYS_POLL_H 1

/* Define to 1 if you have the <sys/resource.h> header file. */
#define HAVE_SYS_RESOURCE_H 1

/* Define to 1 if you have the <sys/sem.h> header file. */
#define HAVE_SYS_SEM_H 1

/* Define to 1 if you have the <sys/socket.h> header file. */
#define HAVE_SYS_SOCKET_H 1

/* Define to 1 if you have the <sys/sockio.h> header file. */
/* #undef HAVE_SYS_SOCKIO_H */

/* Define to 1 if you have the <sys/stat.h> header file. */
#define HAVE_SYS_STAT_H 1

/* Define to 1 if you have the <sys/time.h> header file. */
#define HAVE_SYS_TIME_H 1

/* Define to 1 if you have the <sys/types.h> header file. */
#define HAVE_SYS_TYPES_H 1

/* Define to 1 if you have the <sys/uio.h> header file. */
#define HAVE_SYS_UIO_H 1

/* Define to 1 if you have the <sys/un.h> header file. */
#define HAVE_SYS_UN_H 1

/* Define to 1 if you have <sys/wait.h> that is POSIX.1 compatible. */
#define HAVE_SYS_WAIT_H 1

/* Define to 1 if you have the <time.h> header file. */
#define HAVE_TIME_H 1

/* Define to 1 if you have the <unistd.h> header file. */
#define HAVE_UNISTD_H 1

/* Define to 1 if you have the `unlinkat' function. */
#define HAVE_UNLINKAT 1

/* Define to 1 if you have the `vfork' function. */
#define HAVE_VFORK 1

/* Define to 1 if you have the <vfork.h> header file. */
/* #undef HAVE_VFORK_H */

/* Define to 1 if you have the <wchar.h> header file. */
#define HAVE_WCHAR_H 1

/* Define to 1 if `fork' works. */
#define HAVE_WORKING_FORK 1

/* Define to 1 if `vfork' works. */
#define HAVE_WORKING_VFORK 1

/* localstate directory */
#define LOCALSTATEDIR "/var"

/* Define to the sub-directory where libtool stores uninstalled libraries. */
#define LT_OBJDIR ".libs/"

/* Name of package */
#define PACKAGE "libqb"

/* Define to the address where bug reports for this package should be sent. */
#define PACKAGE_BUGREPORT "developers@clusterlabs.org"

/* quarterback built-in features */
#define PACKAGE_FEATURES " epoll gcc__sync"

/* Define to the full name of this package. */
#define PACKAGE_NAME "libqb"

/* Define to the full name and version of this package. */
#define PACKAGE_STRING "libqb UNKNOWN"

/* Define to the one symbol short name of this package. */
#define PACKAGE_TARNAME "libqb"

/* Define to the home page for this package. */
#define PACKAGE_URL ""

/* Define to the version of this package. */
#define PACKAGE_VERSION "UNKNOWN"

/* Define to necessary symbol if this constant uses a non-standard name on
   your system. */
/* #undef PTHREAD_CREATE_JOINABLE */

/* alpha */
/* #undef QB_ARCH_ALPHA */

/* arm */
/* #undef QB_ARCH_ARM */

/* hppa */
/* #undef QB_ARCH_HPPA */

/* ia64 */
/* #undef QB_ARCH_IA64 */

/* mips */
/* #undef QB_ARCH_MIPS */

/* powerpc */
/* #undef QB_ARCH_POWERPC */

/* sparc */
/* #undef QB_ARCH_SPARC */

/* need atomic memory barrier */
#define QB_ATOMIC_OP_MEMORY_BARRIER_NEEDED 1

/* Compiling for BSD platform */
/* #undef QB_BSD */

/* Compiling for Cygwin platform */
/* #undef QB_CYGWIN */

/* Compiling for Darwin platform */
/* #undef QB_DARWIN */

/* File sync method */
#define QB_FILE_SYNC(fd) fdatasync(fd)

/* shared and fixed mmap must align on 16k */
/* #undef QB_FORCE_SHM_ALIGN */

/* Compiling for GNU/Hurd platform */
/* #undef QB_GNU */

/* Compiling for Linux platform */
#define QB_LINUX 1

/* Compiling for Solaris platform */
/* #undef QB_SOLARIS */

/* libqb major version */
#define QB_VER_MAJOR 1

/* libqb patch version */
#define QB_VER_MICRO 0

/* libqb minor version */
#define QB_VER_MINOR 0

/* libqb patch version */
#define QB_VER_REST ""

/* Socket directory */
#define SOCKETDIR "/var/run"

/* Define to 1 if all of the C90 standard headers exist (not just the ones
   required in a freestanding environment). This macro is provided for
   backward compatibility; new code need not use it. */
#define STDC_HEADERS 1

/* Define to 1 if strerror_r returns char *. */
#define STRERROR_R_CHAR_P 1

/* Unix path length */
/* #undef UNIX_PATH_MAX */

/* Use systemd journal logging */
/* #undef USE_JOURNAL */

/* Enable extensions on AIX 3, Interix.  */
#ifndef _ALL_SOURCE
# define _ALL_SOURCE 1
#endif
/* Enable general extensions on macOS.  */
#ifndef _DARWIN_C_SOURCE
# define _DARWIN_C_SOURCE 1
#endif
/* Enable general extensions on Solaris.  */
#ifndef __EXTENSIONS__
# define __EXTENSIONS__ 1
#endif
/* Enable GNU extensions on systems that have them.  */
#ifndef _GNU_SOURCE
# define _GNU_SOURCE 1
#endif
/* Enable X/Open compliant socket functions that do not require linking
   with -lxnet on HP-UX 11.11.  */
#ifndef _HPUX_ALT_XOPEN_SOCKET_API
# define _HPUX_ALT_XOPEN_SOCKET_API 1
#endif
/* Identify the host operating system as Minix.
   This macro does not affect the system headers' behavior.
   A future release of Autoconf may stop defining this macro.  */
#ifndef _MINIX
/* # undef _MINIX */
#endif
/* Enable general extensions on NetBSD.
   Enable NetBSD compatibility extensions on Minix.  */
#ifndef _NETBSD_SOURCE
# define _NETBSD_SOURCE 1
#endif
/* Enable OpenBSD compatibility extensions on NetBSD.
   Oddly enough, this does nothing on OpenBSD.  */
#ifndef _OPENBSD_SOURCE
# define _OPENBSD_SOURCE 1
#endif
/* Define to 1 if needed for POSIX-compatible behavior.  */
#ifndef _POSIX_SOURCE
/* # undef _POSIX_SOURCE */
#endif
/* Define to 2 if needed for POSIX-compatible behavior.  */
#ifndef _POSIX_1_SOURCE
/* # undef _POSIX_1_SOURCE */
#endif
/* Enable POSIX-compatible threading on Solaris.  */
#ifndef _POSIX_PTHREAD_SEMANTICS
# define _POSIX_PTHREAD_SEMANTICS 1
#endif
/* Enable extensions specified by ISO/IEC TS 18661-5:2014.  */
#ifndef __STDC_WANT_IEC_60559_ATTRIBS_EXT__
# define __STDC_WANT_IEC_60559_ATTRIBS_EXT__ 1
#endif
/* Enable extensions specified by ISO/IEC TS 18661-1:2014.  */
#ifndef __STDC_WANT_IEC_60559_BFP_EXT__
# define __STDC_WANT_IEC_60559_BFP_EXT__ 1
#endif
/* Enable extensions specified by ISO/IEC TS 18661-2:2015.  */
#ifndef __STDC_WANT_IEC_60559_DFP_EXT__
# define __STDC_WANT_IEC_60559_DFP_EXT__ 1
#endif
/* Enable extensions specified by ISO/IEC TS 18661-4:2015.  */
#ifndef __STDC_WANT_IEC_60559_FUNCS_EXT__
# define __STDC_WANT_IEC_60559_FUNCS_EXT__ 1
#endif
/* Enable extensions specified by ISO/IEC TS 18661-3:2015.  */
#ifndef __STDC_WANT_IEC_60559_TYPES_EXT__
# define __STDC_WANT_IEC_60559_TYPES_EXT__ 1
#endif
/* Enable extensions specified by ISO/IEC TR 24731-2:2010.  */
#ifndef __STDC_WANT_LIB_EXT2__
# define __STDC_WANT_LIB_EXT2__ 1
#endif
/* Enable extensions specified by ISO/IEC 24747:2009.  */
#ifndef __STDC_WANT_MATH_SPEC_FUNCS__
# define __STDC_WANT_MATH_SPEC_FUNCS__ 1
#endif
/* Enable extensions on HP NonStop.  */
#ifndef _TANDEM_SOURCE
# define _TANDEM_SOURCE 1
#endif
/* Enable X/Open extensions.  Define to 500 only if necessary
   to make mbstate_t available.  */
#ifndef _XOPEN_SOURCE
/* # undef _XOPEN_SOURCE */
#endif


/* Version number of package */
#define VERSION "UNKNOWN"

/* Define for Solaris 2.5.1 so the uint32_t typedef from <sys/synch.h>,
   <pthread.h>, or <semaphore.h> is not used. If the typedef were allowed, the
   #define below would cause a syntax error. */
/* #undef _UINT32_T */

/* Define for Solaris 2.5.1 so the uint64_t typedef from <sys/synch.h>,
   <pthread.h>, or <semaphore.h> is not used. If the typedef were allowed, the
   #define below would cause a syntax error. */
/* #undef _UINT64_T */

/* Define for Solaris 2.5.1 so the uint8_t typedef from <sys/synch.h>,
   <pthread.h>, or <semaphore.h> is not used. If the typedef were allowed, the
   #define below would cause a syntax error. */
/* #undef _UINT8_T */

/* Define to `int' if <sys/types.h> doesn't define. */
/* #undef gid_t */

/* Define to `__inline__' or `__inline' if that's what the C compiler
   calls it, or to nothing if 'inline' is not supported under any name.  */
#ifndef __cplusplus
/* #undef inline */
#endif

/* Define to the type of a signed integer type of width exactly 32 bits if
   such a type exists and the standard includes do not define it. */
/* #undef int32_t */

/* Define to the type of a signed integer type of width exactly 64 bits if
   such a type exists and the standard includes do not define it. */
/* #undef int64_t */

/* Define to the type of a signed integer type of width exactly 8 bits if such
   a type exists and the standard includes do not define it. */
/* #undef int8_t */

/* Define to `int' if <sys/types.h> does not define. */
/* #undef mode_t */

/* Define as a signed integer type capable of holding a process identifier. */
/* #undef pid_t */

/* Define to `unsigned int' if <sys/types.h> does not define. */
/* #undef size_t */

/* Define to `int' if <sys/types.h> does not define. */
/* #undef ssize_t */

/* Define to `int' if <sys/types.h> doesn't define. */
/* #undef uid_t */

/* Define to the type of an unsigned integer type of width exactly 16 bits if
   such a type exists and the standard includes do not define it. */
/* #undef uint16_t */

/* Define to the type of an unsigned integer type of width exactly 32 bits if
   such a type exists and the standard includes do not define it. */
/* #undef uint32_t */

/* Define to the type of an unsigned integer type of width exactly 64 bits if
   such a type exists and the standard includes do not define it. */
/* #undef uint64_t */

/* Define to the type of an unsigned integer type of width exactly 8 bits if
   such a type exists and the standard includes do not define it. */
/* #undef uint8_t */

/* Define as `fork' if `vfork' does not work. */
/* #undef vfork */

int fdatasync(int fildes);
