/* include/qb/qbconfig.h.  Generated from qbconfig.h.in by configure.  */
/*
 * Copyright (C) 2010-2020 Red Hat, Inc.
 *
 * All rights reserved.
 *
 * Author: Angus Salkeld <asalkeld@redhat.com>
 *
 * libqb is free software: you can redistribute it and/or modify
 * it under the terms of the GNU Lesser General Public License as published by
 * the Free Software Foundation, either version 2.1 of the License, or
 * (at your option) any later version.
 *
 * libqb is distributed in the hope that it will be useful,
 * but WITHOUT ANY WARRANTY; without even the implied warranty of
 * MERCHANTABILITY or FITNESS FOR A PARTICULAR PURPOSE.  See the
 * GNU Lesser General Public License for more details.
 *
 * You should have received a copy of the GNU Lesser General Public License
 * along with libqb.  If not, see <http://www.gnu.org/licenses/>.
 */

#ifndef QB_CONFIG_H_DEFINED
#define QB_CONFIG_H_DEFINED

#include <qb/qbdefs.h>  /* QB_PP_STRINGIFY */

/* need atomic memory barrier */
#define QB_ATOMIC_OP_MEMORY_BARRIER_NEEDED 1

/* versioning info: MAJOR, MINOR, MICRO, and REST components;
   note that static compile-time info is not that useful as consulting
   the respectively named members of qb_version struct constant under
   @c qb_ver identifier (or @c qb_ver_str equivalent of the local
   upper-cased value) directly from libqb in run-time (see qbutil.h),
   but that was only introduced after v1.0.2 */
#define QB_VER_MAJOR 1
#define QB_VER_MINOR 0
#define QB_VER_MICRO 0
#define QB_VER_REST ""

#define QB_VER_STR   \
	QB_PP_STRINGIFY(QB_VER_MAJOR) \
	"." \
	QB_PP_STRINGIFY(QB_VER_MINOR) \
	"." \
	QB_PP_STRINGIFY(QB_VER_MICRO) \
	QB_VER_REST

#endif /* QB_CONFIG_H_DEFINED */
